//! Concrete probes of the real redo crate (built with its verification feature).
//! Output: one JSON object per line on stdout.
use std::env;

fn tokens_exit() {
    // every small entry state of do_force_return_tokens; `own`: the server made its cheat pipe itself (nobody above reads it).
    // The token pipe is pre-filled with 4 tokens so that a process that takes tokens out of it does not wait.
    const PRE: usize = 4;
    for top_level in [0, 2] {
        for own in [false, true] {
            for my_tokens in 0..=2 {
                for cheats in 0..=2 {
                    for n in 0..=2usize {
                        let (ok, mt, ch, tok, cheat) =
                            redo::verif::jobserver::force_return_tokens_probe_ext(my_tokens, cheats, n, top_level, own, PRE);
                        println!(
                            "{{\"probe\":\"tokens-exit\",\"top_level\":{},\"own_cheat_pipe\":{},\"my_tokens\":{},\"cheats\":{},\"children\":{},\"ok\":{},\"my_tokens_after\":{},\"cheats_after\":{},\"token_bytes\":{},\"cheat_bytes\":{}}}",
                            top_level, own, my_tokens, cheats, n, ok, mt, ch, tok as i64 - PRE as i64, cheat
                        );
                    }
                }
            }
        }
    }
}

fn tokens_steps() {
    // every small entry state of the ServerState step functions (preconditions are applied by the caller of the probe)
    for op in ["create", "destroy", "release", "release_except_mine", "release_mine"] {
        for my_tokens in 0..=3 {
            for cheats in 0..=2 {
                for n in 0..=3 {
                    if (op == "release_except_mine" || op == "release_mine") && n != 0 {
                        continue;
                    }
                    let (ok, mt, ch, tok) = redo::verif::jobserver::server_state_step_probe(op, my_tokens, cheats, n);
                    println!(
                        "{{\"probe\":\"tokens-steps\",\"op\":\"{}\",\"my_tokens\":{},\"cheats\":{},\"n\":{},\"ok\":{},\"my_tokens_after\":{},\"cheats_after\":{},\"token_bytes\":{}}}",
                        op, my_tokens, cheats, n, ok, mt, ch, tok
                    );
                }
            }
        }
    }
}

fn deps() {
    match redo::verif::state::deps_probe() {
        Ok(steps) => {
            let names = ["declared", "after_zap_deps1", "after_redeclare_s1", "after_zap_deps2", "redeclared_as_created", "created_after_zap_deps2", "modified_again_after_zap_deps2"];
            for (i, rows) in steps.iter().enumerate() {
                let rows: Vec<String> = rows.iter().map(|(m, n)| format!("[\"{}\",\"{}\"]", m, n)).collect();
                println!("{{\"probe\":\"deps\",\"step\":\"{}\",\"rows\":[{}]}}", names[i], rows.join(","));
            }
        }
        Err(e) => println!("{{\"probe\":\"deps\",\"error\":\"{}\"}}", e.to_string().replace('"', "'")),
    }
}


// ---------------------------------------------------------------- normpath: all short byte strings against an independent reference
fn esc(v: &[u8]) -> String {
    String::from_utf8_lossy(v).replace('\\', "\\\\").replace('"', "\\\"")
}

fn ref_is_clean(v: &[u8]) -> bool {
    if v.is_empty() {
        return false;
    }
    if v == b"." || v == b"/" {
        return true;
    }
    let rooted = v[0] == b'/';
    let body = if rooted { &v[1..] } else { v };
    let mut leading = !rooted;
    for c in body.split(|&b| b == b'/') {
        if c.is_empty() || c == b"." {
            return false;
        }
        if c == b".." {
            if !leading {
                return false;
            }
        } else {
            leading = false;
        }
    }
    true
}

/// (parent steps, names) reached by walking `v` in a tree without symbolic links
fn ref_den(v: &[u8]) -> (usize, Vec<Vec<u8>>) {
    let rooted = !v.is_empty() && v[0] == b'/';
    let mut ups = 0usize;
    let mut names: Vec<Vec<u8>> = Vec::new();
    for c in v.split(|&b| b == b'/') {
        if c.is_empty() || c == b"." {
            continue;
        }
        if c == b".." {
            if names.pop().is_none() && !rooted {
                ups += 1;
            }
        } else {
            names.push(c.to_vec());
        }
    }
    (ups, names)
}

fn normpath_bytes(v: &[u8]) -> Vec<u8> {
    use std::ffi::OsStr;
    use std::os::unix::ffi::OsStrExt;
    let p = std::path::Path::new(OsStr::from_bytes(v));
    redo::normpath(p).as_os_str().as_bytes().to_vec()
}

fn normpath_probe() {
    let mut checked = 0usize;
    let mut fails = 0usize;
    let mut report = |input: &[u8], out: &[u8], clause: &str| {
        if fails < 40 {
            println!(
                "{{\"probe\":\"normpath\",\"input\":\"{}\",\"output\":\"{}\",\"clause\":\"{}\"}}",
                esc(input),
                esc(out),
                clause
            );
        }
        fails += 1;
    };
    for (alphabet, maxlen) in [(&b"/.a"[..], 10usize), (&b"/.ab"[..], 8usize)] {
        for len in 0..=maxlen {
            let mut idx = vec![0usize; len];
            loop {
                let v: Vec<u8> = idx.iter().map(|&i| alphabet[i]).collect();
                let out = normpath_bytes(&v);
                checked += 1;
                if out.is_empty() {
                    report(&v, &out, "normpath.never_empty");
                }
                if !ref_is_clean(&out) {
                    report(&v, &out, "normpath.result_is_clean");
                }
                if !v.is_empty() && (out.first() == Some(&b'/')) != (v[0] == b'/') {
                    report(&v, &out, "normpath.keeps_rootedness");
                }
                if ref_is_clean(&v) && out != v {
                    report(&v, &out, "normpath.clean_is_fixpoint");
                }
                if ref_den(&out) != ref_den(&v) {
                    report(&v, &out, "normpath.same_location");
                }
                if normpath_bytes(&out) != out {
                    report(&v, &out, "normpath.idempotent");
                }
                // next string
                let mut k = len;
                loop {
                    if k == 0 {
                        break;
                    }
                    k -= 1;
                    idx[k] += 1;
                    if idx[k] < alphabet.len() {
                        break;
                    }
                    idx[k] = 0;
                    if k == 0 {
                        k = usize::MAX;
                        break;
                    }
                }
                if len == 0 || k == usize::MAX {
                    break;
                }
            }
        }
    }
    println!("{{\"probe\":\"normpath\",\"summary\":true,\"checked\":{},\"failures\":{}}}", checked, fails);
}

// ---------------------------------------------------------------- relpath: spellings of one file in a small tree with one symlinked directory
fn ref_rel(t: &std::path::Path, base: &std::path::Path) -> std::path::PathBuf {
    // both canonical absolute: component diff
    let tc: Vec<_> = t.components().collect();
    let bc: Vec<_> = base.components().collect();
    let mut n = 0;
    while n < tc.len() && n < bc.len() && tc[n] == bc[n] {
        n += 1;
    }
    let mut r = std::path::PathBuf::new();
    for _ in n..bc.len() {
        r.push("..");
    }
    for c in &tc[n..] {
        r.push(c);
    }
    r
}

fn relpath_probe() {
    use std::fs;
    let top = env::current_dir().unwrap().join("top");
    let _ = fs::remove_dir_all(&top);
    fs::create_dir_all(top.join("src/lib")).unwrap();
    fs::create_dir_all(top.join("d/e")).unwrap();
    std::os::unix::fs::symlink("src/lib", top.join("lib")).unwrap();
    let top = fs::canonicalize(&top).unwrap();
    let mut checked = 0usize;
    let mut fails = 0usize;
    let prefixes = [
        "", "./", "src/", "src/lib/", "lib/", "lib/../", "src/../", "d/e/../", "d//e/", "lib/./", "../top/", "d/../lib/", "src/lib/../../",
        // directories that do not exist (yet): below a real directory, below the symlinked one, and left again with ..
        "d/new/", "lib/new/", "lib/new/deep/", "lib/new/../", "src/lib/new/",
    ];
    for cwd_rel in ["", "src", "d/e", "lib"] {
        let cwd = top.join(cwd_rel);
        env::set_current_dir(&cwd).unwrap();
        let cwd_phys = fs::canonicalize(&cwd).unwrap();
        for absolute in [false, true] {
            for pre in prefixes.iter() {
                let spelling = if absolute {
                    format!("{}/{}x", cwd.display(), pre)
                } else {
                    format!("{}x", pre)
                };
                // the directory the OS resolves the spelling's directory part to (skip spellings that leave the tree)
                let dir_part = if absolute { format!("{}/{}", cwd.display(), pre) } else { format!("./{}", pre) };
                // Independent reference: the tree is known (its only symbolic link is top/lib -> top/src/lib), so the
                // physical directory is computed from that table, component by component, without asking the OS.  This
                // also covers directories that do not exist yet (non-strict resolution, as Python's os.path.realpath).
                let dir_phys = {
                    let mut p = if absolute { std::path::PathBuf::from("/") } else { cwd_phys.clone() };
                    for c in std::path::Path::new(&dir_part).components() {
                        match c {
                            std::path::Component::RootDir | std::path::Component::Prefix(_) => p = std::path::PathBuf::from("/"),
                            std::path::Component::CurDir => {}
                            std::path::Component::ParentDir => {
                                p.pop();
                            }
                            std::path::Component::Normal(n) => {
                                p.push(n);
                                if p == top.join("lib") {
                                    p = top.join("src/lib");
                                }
                            }
                        }
                    }
                    p
                };
                if !dir_phys.starts_with(&top) {
                    continue; // spellings that leave the tree
                }
                if let Ok(os) = fs::canonicalize(&dir_part) {
                    assert_eq!(os, dir_phys, "reference resolver disagrees with the OS on an existing directory");
                }
                let _ = &cwd_phys;
                let t_phys = dir_phys.join("x");
                // bases are physical directory spellings, as every call site supplies (Env::base, target_relpath's directory
                // derived from canonical names); a base that is itself a symbolic link is outside relpath's contract
                for base_rel in ["", "src", "d/e", "src/lib"] {
                    let base = top.join(base_rel);
                    let base_phys = fs::canonicalize(&base).unwrap();
                    let want = ref_rel(&t_phys, &base_phys);
                    checked += 1;
                    let got = redo::relpath(&spelling, &base);
                    let ok = match &got {
                        Ok(p) => *p == want,
                        Err(_) => false,
                    };
                    if !ok {
                        if fails < 40 {
                            println!(
                                "{{\"probe\":\"relpath\",\"input\":\"cwd=top/{} t={} base=top/{}\",\"output\":\"{}\",\"expected\":\"{}\",\"clause\":\"relpath.result\"}}",
                                cwd_rel,
                                spelling.replace(&top.display().to_string(), "$TOP"),
                                base_rel,
                                match &got { Ok(p) => esc(p.to_string_lossy().as_bytes()), Err(e) => format!("Err({})", esc(e.to_string().as_bytes())) },
                                esc(want.to_string_lossy().as_bytes())
                            );
                        }
                        fails += 1;
                    }
                }
            }
        }
    }
    env::set_current_dir("/").unwrap();
    let _ = fs::remove_dir_all(&top);
    println!("{{\"probe\":\"relpath\",\"summary\":true,\"checked\":{},\"failures\":{}}}", checked, fails);
}

// ---------------------------------------------------------------- cycles: add a sequence of ids, then check membership
fn cycles_probe() {
    let ids = ["1", "2", "4", "12", "24", "42", "124"];
    let mut checked = 0usize;
    let mut fails = 0usize;
    let mut seqs: Vec<Vec<&str>> = vec![vec![]];
    for a in ids.iter() {
        seqs.push(vec![*a]);
        for b in ids.iter() {
            if a != b {
                seqs.push(vec![*a, *b]);
                for c in ids.iter() {
                    if c != a && c != b {
                        seqs.push(vec![*a, *b, *c]);
                    }
                }
            }
        }
    }
    for held in seqs.iter() {
        for q in ids.iter() {
            let refused = redo::verif::cycles::cycles_probe(held, q);
            let member = held.contains(q);
            checked += 1;
            if refused != member {
                if fails < 40 {
                    println!(
                        "{{\"probe\":\"cycles\",\"input\":\"add {} then check {}\",\"output\":\"{}\",\"expected\":\"{}\",\"clause\":\"{}\"}}",
                        held.join(","),
                        q,
                        if refused { "CyclicDependency" } else { "Ok" },
                        if member { "CyclicDependency" } else { "Ok" },
                        if member { "cycles.check_detects_ancestor" } else { "cycles.check_no_false_alarm" }
                    );
                }
                fails += 1;
            }
        }
    }
    println!("{{\"probe\":\"cycles\",\"summary\":true,\"checked\":{},\"failures\":{}}}", checked, fails);
}

// ---------------------------------------------------------------- logs.rs: record format round trip through the exported type (C18; bounded)
// Every record is built the way logs::meta / Display for Meta write it ("@@REDO:<kind>:<pid>:<ts %.4>@@ <text>"), parsed by
// the real Meta::parse, re-formatted by the real Display, and -- for "done" records -- split by the real done_text().
fn logmeta_probe() {
    use redo::logs::Meta;
    let kinds = ["do", "done", "check", "unchanged", "error", "warning", "debug", "locked", "waiting", "unlocked", "x"];
    let pids: [i32; 5] = [1, 7, 4242, 99999, i32::MAX];
    let stamps: [(&str, f64); 4] = [("0.0000", 0.0), ("1.0000", 1.0), ("1790755100.1235", 1790755100.1235), ("12.5000", 12.5)];
    let texts = ["", "t", "a b", " lead", "trail ", "dir/x y.o", "@@ x", "@@REDO:do:1:1.0000@@ t", "x:y", "caf\u{e9}", "-9 t", "a  b"];
    let mut statuses: Vec<i32> = (-255..=255).collect();
    statuses.extend_from_slice(&[256, 1000, 32768, -32768, i32::MAX, i32::MIN, 206, 207, 208]);
    let names = ["t", "a b", " lead", "trail ", "dir/x y.o", "-1", "7 x", "caf\u{e9}", ""];
    let mut checked = 0u64;
    let mut fails = 0u64;
    let mut report = |input: &str, observed: &str, expected: &str, clause: &str, fails: &mut u64| {
        if *fails < 40 {
            println!(
                "{{\"probe\":\"logmeta\",\"input\":\"{}\",\"output\":\"{}\",\"expected\":\"{}\",\"clause\":\"{}\"}}",
                esc(input.as_bytes()), esc(observed.as_bytes()), esc(expected.as_bytes()), clause
            );
        }
        *fails += 1;
    };
    for kind in kinds.iter() {
        for pid in pids.iter() {
            for (ts_text, ts) in stamps.iter() {
                for text in texts.iter() {
                    let line = format!("@@REDO:{}:{}:{}@@ {}", kind, pid, ts_text, text);
                    checked += 1;
                    match Meta::parse(&line) {
                        Ok(m) => {
                            if m.kind() != *kind || m.pid().as_raw() != *pid || m.text() != *text || (m.timestamp() - ts).abs() > 0.00005 {
                                let got = format!("kind={} pid={} ts={} text={}", m.kind(), m.pid().as_raw(), m.timestamp(), m.text());
                                report(&line, &got, "the fields as written", "record.parse_inverts_format", &mut fails);
                            }
                            let again = m.to_string();
                            if again != line {
                                report(&line, &again, &line, "record.format_is_prefix_meta_sep_text", &mut fails);
                            }
                        }
                        Err(e) => report(&line, &format!("Err({})", e), "Ok", "record.parse_inverts_format", &mut fails),
                    }
                }
            }
        }
    }
    for rv in statuses.iter() {
        for name in names.iter() {
            let line = format!("@@REDO:done:4242:12.5000@@ {} {}", rv, name);
            checked += 1;
            match Meta::parse(&line) {
                Ok(m) => match m.done_text() {
                    Some((r, n)) if r == *rv && n == *name => {}
                    other => report(&line, &format!("{:?}", other), &format!("Some(({}, {:?}))", rv, name), "done.parse_inverts_format", &mut fails),
                },
                Err(e) => report(&line, &format!("Err({})", e), "Ok", "record.parse_inverts_format", &mut fails),
            }
        }
    }
    // a record of another kind is never a done record
    for kind in kinds.iter().filter(|k| **k != "done") {
        let line = format!("@@REDO:{}:1:1.0000@@ 0 t", kind);
        checked += 1;
        if let Ok(m) = Meta::parse(&line) {
            if m.done_text().is_some() {
                report(&line, "Some", "None", "done.parse_inverts_format", &mut fails);
            }
        }
    }
    println!("{{\"probe\":\"logmeta\",\"summary\":true,\"checked\":{},\"failures\":{}}}", checked, fails);
}

fn main() {
    match env::args().nth(1).as_deref() {
        Some("tokens-exit") => tokens_exit(),
        Some("tokens-steps") => tokens_steps(),
        Some("deps") => deps(),
        Some("cycles") => cycles_probe(),
        Some("normpath") => normpath_probe(),
        Some("relpath") => relpath_probe(),
        Some("logmeta") => logmeta_probe(),
        _ => {
            eprintln!("usage: redo-replay tokens-exit|tokens-steps|deps|cycles|normpath|relpath|logmeta");
            std::process::exit(2);
        }
    }
}
