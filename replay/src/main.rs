//! Concrete probes of the real redo crate (built with its verification feature).
//! Output: one JSON object per line on stdout.
use std::env;

fn tokens_exit() {
    // every small entry state of do_force_return_tokens
    for top_level in [0, 2] {
        for my_tokens in 0..=2 {
            for cheats in 0..=my_tokens.min(1) {
                for n in 0..=2usize {
                    let (ok, mt, ch, tok, cheat) =
                        redo::verif::jobserver::force_return_tokens_probe(my_tokens, cheats, n, top_level);
                    println!(
                        "{{\"probe\":\"tokens-exit\",\"top_level\":{},\"my_tokens\":{},\"cheats\":{},\"children\":{},\"ok\":{},\"my_tokens_after\":{},\"cheats_after\":{},\"token_bytes\":{},\"cheat_bytes\":{}}}",
                        top_level, my_tokens, cheats, n, ok, mt, ch, tok, cheat
                    );
                }
            }
        }
    }
}

fn deps() {
    match redo::verif::state::deps_probe() {
        Ok(steps) => {
            let names = ["declared", "after_zap_deps1", "after_redeclare_s1", "after_zap_deps2"];
            for (i, rows) in steps.iter().enumerate() {
                let rows: Vec<String> = rows.iter().map(|(m, n)| format!("[\"{}\",\"{}\"]", m, n)).collect();
                println!("{{\"probe\":\"deps\",\"step\":\"{}\",\"rows\":[{}]}}", names[i], rows.join(","));
            }
        }
        Err(e) => println!("{{\"probe\":\"deps\",\"error\":\"{}\"}}", e.to_string().replace('"', "'")),
    }
}

fn main() {
    match env::args().nth(1).as_deref() {
        Some("tokens-exit") => tokens_exit(),
        Some("deps") => deps(),
        _ => {
            eprintln!("usage: redo-replay tokens-exit|deps");
            std::process::exit(2);
        }
    }
}
