// TRUSTED model of the file-system calls made by builder.rs (kernel semantics over a ghost FsWorld).
pub enum FsOp {
    Unlink(Seq<char>),
    Create(Seq<char>),
    CopyInto(Seq<char>),
    Rename(Seq<char>, Seq<char>),
    /// fs::remove_dir_all: the directory and everything below it
    RemoveTree(Seq<char>),
}
impl FsOp {
    /// does this operation name path p as the thing it creates, overwrites, replaces or removes
    pub open spec fn touches(&self, p: Seq<char>) -> bool {
        match *self {
            FsOp::Unlink(a) => a == p,
            FsOp::Create(a) => a == p,
            FsOp::CopyInto(a) => a == p,
            FsOp::Rename(a, b) => a == p || b == p,
            FsOp::RemoveTree(a) => a == p,
        }
    }
}
pub tracked struct FsWorld {
    /// does a directory entry with this name exist
    pub ghost exists: Map<Seq<char>, bool>,
    /// bytes of regular files
    pub ghost content: Map<Seq<char>, Seq<u8>>,
    /// every mutating call (including failed attempts), in order
    pub ghost trace: Seq<FsOp>,
    /// paths that are directories (unlink on them fails with EISDIR/EPERM)
    pub ghost dirs: Set<Seq<char>>,
    /// ASSUMED by callers (environment faults are outside C04/C09's quantifiers): calls whose result the code
    /// `.expect()`s do not fail
    pub ghost no_faults: bool,
}
impl FsWorld {
    pub open spec fn is_there(&self, p: Seq<char>) -> bool { self.exists.contains_key(p) && self.exists[p] }
    pub open spec fn same_state(&self, o: &FsWorld) -> bool { self.exists == o.exists && self.content == o.content && self.no_faults == o.no_faults && self.dirs == o.dirs }
}
/// R-generic: every path-like argument (`AsRef<Path>` / `NixPath`) is viewed as its characters
#[verifier::external_body]
pub struct Metadata { _p: () }
#[verifier::external_body]
pub struct SystemTime { _p: () }
#[verifier::external_body]
pub struct IoError { _p: () }
impl Cause for IoError { open spec fn cause_chain(&self) -> Seq<ErrNode> { seq![ErrNode::Foreign] } }
#[derive(PartialEq, Eq, Structural)]
pub enum IoErrorKind { NotFound, Other }
pub mod io { pub type Result<T> = core::result::Result<T, super::IoError>; pub use super::IoErrorKind as ErrorKind; }
impl IoError {
    pub uninterp spec fn spec_kind(&self) -> IoErrorKind;
    #[verifier::external_body]
    #[verifier::when_used_as_spec(spec_kind)]
    pub fn kind(&self) -> (r: IoErrorKind) ensures r == self.spec_kind() { unimplemented!() }
}
impl SystemTime { pub uninterp spec fn view(&self) -> int; }
impl PartialEqSpecImpl for SystemTime {
    open spec fn obeys_eq_spec() -> bool { true }
    open spec fn eq_spec(&self, other: &SystemTime) -> bool { self@ == other@ }
}
impl PartialEq for SystemTime { #[verifier::external_body] fn eq(&self, o: &SystemTime) -> (r: bool) { unimplemented!() } }
impl Metadata {
    pub uninterp spec fn spec_is_dir(&self) -> bool;
    pub uninterp spec fn spec_mtime(&self) -> Option<int>;
    pub uninterp spec fn spec_size(&self) -> nat;
    #[verifier::external_body]
    pub fn is_dir(&self) -> (r: bool) ensures r == self.spec_is_dir() { unimplemented!() }
    #[verifier::external_body]
    pub fn modified(&self) -> (r: io::Result<SystemTime>)
        ensures (r matches Ok(t) ==> self.spec_mtime() == Some(t@)), (r is Err ==> self.spec_mtime() is None),
    { unimplemented!() }
    /// std::os::unix::fs::MetadataExt::mtime / mtime_nsec: the same instant as `modified()`, split into whole seconds and
    /// nanoseconds (two different instants may share their whole seconds)
    #[verifier::external_body]
    pub fn mtime(&self) -> (r: i64) ensures self.spec_mtime() matches Some(ns) ==> r as int == ns / 1_000_000_000 { unimplemented!() }
    #[verifier::external_body]
    pub fn mtime_nsec(&self) -> (r: i64) ensures self.spec_mtime() matches Some(ns) ==> r as int == ns % 1_000_000_000 { unimplemented!() }
    /// std::os::unix::fs::MetadataExt::size
    #[verifier::external_body]
    pub fn size(&self) -> (r: u64) ensures r == self.spec_size() { unimplemented!() }
}
/// an open file handle: the anonymous stdout capture file, or a file created by name
#[verifier::external_body]
pub struct FsFile { _p: () }
impl FsFile {
    /// name it was created under (None for the anonymous stdout capture)
    pub uninterp spec fn path(&self) -> Option<Seq<char>>;
    /// bytes it holds (for the stdout capture: what the script wrote to stdout)
    pub uninterp spec fn bytes(&self) -> Seq<u8>;
    #[verifier::external_body]
    pub fn metadata(&self, Tracked(fw): Tracked<&FsWorld>) -> (r: io::Result<Metadata>)
        ensures fw.no_faults ==> r is Ok, r matches Ok(m) ==> m.spec_size() == self.bytes().len(),
    { unimplemented!() }
    #[verifier::external_body]
    pub fn seek_start(&mut self, Tracked(fw): Tracked<&FsWorld>) -> (r: io::Result<u64>)
        ensures fw.no_faults ==> r is Ok, final(self).path() == old(self).path(), final(self).bytes() == old(self).bytes(),
    { unimplemented!() }
    /// File::create(name): creates or truncates
    #[verifier::external_body]
    pub fn create<P: PathLike>(p: &P, Tracked(fw): Tracked<&mut FsWorld>) -> (r: io::Result<FsFile>)
        ensures
            final(fw).no_faults == old(fw).no_faults, final(fw).dirs == old(fw).dirs,
            final(fw).trace == old(fw).trace.push(FsOp::Create(p.pview())),
            r matches Ok(f) ==> f.path() == Some(p.pview()) && f.bytes() == Seq::<u8>::empty()
                && final(fw).exists == old(fw).exists.insert(p.pview(), true) && final(fw).content == old(fw).content.insert(p.pview(), Seq::<u8>::empty()),
            r is Err ==> final(fw).exists == old(fw).exists && final(fw).content == old(fw).content,
    { unimplemented!() }
}
/// io::copy(&mut src, &mut dst): dst (a named file) receives src's bytes
#[verifier::external_body]
pub fn io_copy(src: &mut FsFile, dst: &mut FsFile, Tracked(fw): Tracked<&mut FsWorld>) -> (r: io::Result<u64>)
    requires old(dst).path() is Some,
    ensures
        final(fw).no_faults == old(fw).no_faults, final(fw).dirs == old(fw).dirs, old(fw).no_faults ==> r is Ok,
        final(src).path() == old(src).path(), final(src).bytes() == old(src).bytes(), final(dst).path() == old(dst).path(),
        final(fw).trace == old(fw).trace.push(FsOp::CopyInto(old(dst).path().unwrap())),
        final(fw).exists == old(fw).exists,
        r is Ok ==> final(dst).bytes() == old(src).bytes() && final(fw).content == old(fw).content.insert(old(dst).path().unwrap(), old(src).bytes()),
{ unimplemented!() }
/// what lstat reports for a name in a given world
pub uninterp spec fn stat_of(fw: &FsWorld, p: Seq<char>) -> Option<Metadata>;
/// builder::try_stat (lstat; NotFound -> None).  TRUSTED, hash-pinned.
#[verifier::external_body]
pub fn try_stat<P: PathLike>(p: &P, Tracked(fw): Tracked<&FsWorld>) -> (r: io::Result<Option<Metadata>>)
    ensures fw.no_faults ==> r is Ok, r matches Ok(m) ==> m == stat_of(fw, p.pview()) && (m is Some) == fw.is_there(p.pview()),
        // a directory is a directory entry: what is not there is no directory, and lstat tells which it is
        r matches Ok(None) ==> !fw.dirs.contains(p.pview()), r matches Ok(Some(md)) ==> md.spec_is_dir() == fw.dirs.contains(p.pview()),
{ unimplemented!() }
pub mod helpers {
    use super::*;
    /// helpers::unlink: unlink(2), ENOENT is success.  TRUSTED, hash-pinned.
    #[verifier::external_body]
    pub fn unlink<P: PathLike>(p: &P, Tracked(fw): Tracked<&mut FsWorld>) -> (r: core::result::Result<(), Errno>)
        ensures
            final(fw).no_faults == old(fw).no_faults, final(fw).content == old(fw).content, final(fw).dirs == old(fw).dirs,
            final(fw).trace == old(fw).trace.push(FsOp::Unlink(p.pview())),
            // unlink(2) refuses a directory (EISDIR on Linux, EPERM elsewhere); anything else goes unless the environment is faulty
            old(fw).dirs.contains(p.pview()) ==> (r == Err::<(), Errno>(Errno::EISDIR) || r == Err::<(), Errno>(Errno::EPERM)),
            old(fw).no_faults && !old(fw).dirs.contains(p.pview()) ==> r is Ok,
            r is Ok ==> final(fw).exists == old(fw).exists.insert(p.pview(), false),
            r is Err ==> final(fw).exists == old(fw).exists,
    { unimplemented!() }
}
pub mod fs {
    use super::*;
    /// std::fs::remove_dir_all: removes a directory with its contents.  TRUSTED.
    #[verifier::external_body]
    pub fn remove_dir_all<P: PathLike>(p: &P, Tracked(fw): Tracked<&mut FsWorld>) -> (r: io::Result<()>)
        ensures
            final(fw).no_faults == old(fw).no_faults, final(fw).content == old(fw).content,
            final(fw).trace == old(fw).trace.push(FsOp::RemoveTree(p.pview())),
            old(fw).no_faults && old(fw).dirs.contains(p.pview()) ==> r is Ok,
            r is Ok ==> final(fw).exists == old(fw).exists.insert(p.pview(), false) && final(fw).dirs == old(fw).dirs.remove(p.pview()),
            r is Err ==> final(fw).exists == old(fw).exists && final(fw).dirs == old(fw).dirs,
    { unimplemented!() }
    /// std::fs::metadata: stat(2), FOLLOWS symbolic links.  TRUSTED.  A name that is there may still be reported NotFound (a
    /// symbolic link whose destination does not exist); a name that is not there is always NotFound.
    #[verifier::external_body]
    pub fn metadata<P: PathLike>(p: &P, Tracked(fw): Tracked<&FsWorld>) -> (r: io::Result<Metadata>)
        ensures
            r matches Ok(md) ==> fw.is_there(p.pview()),
            !fw.is_there(p.pview()) ==> (r matches Err(e) && e.kind() == io::ErrorKind::NotFound),
    { unimplemented!() }
    /// std::fs::symlink_metadata: lstat(2), the entry itself.  TRUSTED.
    #[verifier::external_body]
    pub fn symlink_metadata<P: PathLike>(p: &P, Tracked(fw): Tracked<&FsWorld>) -> (r: io::Result<Metadata>)
        ensures
            r matches Ok(md) ==> fw.is_there(p.pview()) && md.spec_is_dir() == fw.dirs.contains(p.pview()),
            r matches Err(e) ==> (e.kind() == io::ErrorKind::NotFound) == !fw.is_there(p.pview()),
            fw.no_faults && fw.is_there(p.pview()) ==> r is Ok,
    { unimplemented!() }
    /// std::fs::remove_file: unlink(2).  TRUSTED.
    #[verifier::external_body]
    pub fn remove_file<P: PathLike>(p: &P, Tracked(fw): Tracked<&mut FsWorld>) -> (r: io::Result<()>)
        ensures
            final(fw).no_faults == old(fw).no_faults, final(fw).content == old(fw).content, final(fw).dirs == old(fw).dirs,
            final(fw).trace == old(fw).trace.push(FsOp::Unlink(p.pview())),
            old(fw).dirs.contains(p.pview()) || !old(fw).is_there(p.pview()) ==> r is Err,
            old(fw).no_faults && !old(fw).dirs.contains(p.pview()) && old(fw).is_there(p.pview()) ==> r is Ok,
            r is Ok ==> final(fw).exists == old(fw).exists.insert(p.pview(), false),
            r is Err ==> final(fw).exists == old(fw).exists,
    { unimplemented!() }
    /// rename(2): atomic replacement of the destination name.  TRUSTED.
    #[verifier::external_body]
    pub fn rename<P: PathLike, Q: PathLike>(src: &P, dst: &Q, Tracked(fw): Tracked<&mut FsWorld>) -> (r: io::Result<()>)
        ensures
            final(fw).no_faults == old(fw).no_faults, final(fw).dirs == old(fw).dirs,
            final(fw).trace == old(fw).trace.push(FsOp::Rename(src.pview(), dst.pview())),
            r is Ok ==> final(fw).exists == old(fw).exists.insert(src.pview(), false).insert(dst.pview(), true),
            r is Ok && old(fw).content.contains_key(src.pview()) ==> final(fw).content == old(fw).content.insert(dst.pview(), old(fw).content[src.pview()]),
            r is Err ==> final(fw).exists == old(fw).exists && final(fw).content == old(fw).content,
    { unimplemented!() }
}
pub enum Errno { EISDIR, EPERM, Other }
#[verifier::external]
impl core::fmt::Debug for IoError { fn fmt(&self, f: &mut core::fmt::Formatter<'_>) -> core::fmt::Result { Ok(()) } }
#[verifier::external]
impl core::fmt::Debug for Errno { fn fmt(&self, f: &mut core::fmt::Formatter<'_>) -> core::fmt::Result { Ok(()) } }
