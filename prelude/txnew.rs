// TRUSTED: beginning and committing a transaction (state.rs ProcessTransaction::new / commit, hash-pinned), over a ghost
// view of the committed database.
pub tracked struct DbWorld {
    /// what a process that opens the database now would see (the committed state)
    pub ghost committed: Db,
}
pub enum TransactionBehavior { Deferred, Immediate, Exclusive }
pub open spec fn behavior_mode(b: TransactionBehavior) -> TxMode {
    match b { TransactionBehavior::Deferred => TxMode::Deferred, TransactionBehavior::Immediate => TxMode::Immediate, TransactionBehavior::Exclusive => TxMode::Exclusive }
}
#[verifier::external_body]
pub struct SqlError { _p: () }
#[verifier::external]
impl core::fmt::Debug for SqlError { fn fmt(&self, f: &mut core::fmt::Formatter<'_>) -> core::fmt::Result { Ok(()) } }
impl<'a> ProcessTransaction<'a> {
    /// TRUSTED (BEGIN DEFERRED|IMMEDIATE|EXCLUSIVE): a new transaction starts from the committed state
    #[verifier::external_body]
    pub fn new(ps: &'a mut ProcessState, behavior: TransactionBehavior, Tracked(dbw): Tracked<&DbWorld>) -> (r: Result<ProcessTransaction<'a>, SqlError>)
        ensures r matches Ok(p) ==> p@ == dbw.committed && p.spec_env() == old(ps).spec_env()
            && p.tx_mode() == behavior_mode(behavior) && !p.has_read() && !p.has_written(),
            // when the borrow ends (the transaction was committed or dropped: finish_ resets `wrote` on every path that
            // returns) the process state is flushed again and its environment is what it was
            r is Ok ==> final(ps).spec_flushed(), r is Err ==> final(ps).spec_flushed() == old(ps).spec_flushed(),
            final(ps).spec_env() == old(ps).spec_env(),
    { unimplemented!() }
    /// TRUSTED (COMMIT): atomically publishes the transaction's view; a transaction that is dropped instead rolls back
    #[verifier::external_body]
    pub fn commit(self, Tracked(dbw): Tracked<&mut DbWorld>) -> (r: Result<(), SqlError>)
        ensures r is Ok ==> final(dbw).committed == self@, r is Err ==> final(dbw).committed == old(dbw).committed,
    { unimplemented!() }
}
