// TRUSTED specifications of the SQL-issuing / file-system-reading bodies of state::File
// (hash-pinned by //@pin lines in each unit that includes this file).
impl File {
    /// abstract record held by this in-memory File
    pub open spec fn rec(&self) -> FileRec {
        FileRec { name: self.name@, is_generated: self.is_generated, is_override: self.is_override,
                  checked_runid: self.checked_runid, changed_runid: self.changed_runid, failed_runid: self.failed_runid,
                  stamp: stamp_view(self.stamp), csum: self.csum@ }
    }

    /// TRUSTED (SQL `update Files set ... where rowid=?`): overwrites the row of this id with this record.
    #[verifier::external_body]
    pub fn save(&mut self, ptx: &mut ProcessTransaction) -> (ret: Result<(), RedoError>)
        requires old(ptx).can_write(),
        ensures
            final(ptx).after_write(old(ptx)),
            *final(self) == *old(self),
            final(ptx).spec_env() == old(ptx).spec_env(),
            final(ptx)@.deps == old(ptx)@.deps,
            ret is Ok ==> final(ptx)@.files == (if old(ptx)@.files.contains_key(old(self).id) { old(ptx)@.files.insert(old(self).id, old(self).rec()) } else { old(ptx)@.files }),
            ret is Err ==> final(ptx)@.files == old(ptx)@.files,
    { unimplemented!() }

    /// TRUSTED (SQL `select ... where rowid=?` + from_cols): read-your-writes of the row, ALWAYS rule applied.
    #[verifier::external_body]
    pub fn from_id(ptx: &mut ProcessTransaction, id: i64) -> (ret: Result<File, RedoError>)
        ensures
            final(ptx).after_read(old(ptx)),
            final(ptx)@ == old(ptx)@, final(ptx).spec_env() == old(ptx).spec_env(),
            ret matches Ok(f) ==> f.id == id && old(ptx)@.files.contains_key(id)
                && f.rec() == always_rule(old(ptx)@.files[id], old(ptx).spec_env().runid),
            ret matches Err(e) ==> old(ptx)@.files.contains_key(id) ==> e.kind() == RedoErrorKind::Generic,
    { unimplemented!() }

    /// TRUSTED (SQL select by name, insert-if-absent, re-select; name normalised relative to the project base):
    /// returns the row named norm_name(name); adds a fresh row when absent and allow_add.
    #[verifier::external_body]
    pub fn from_name<P: PathLike>(ptx: &mut ProcessTransaction, name: &P, allow_add: bool) -> (ret: Result<File, RedoError>)
        requires allow_add ==> old(ptx).tx_mode() != TxMode::Deferred || old(ptx).has_written(),
        ensures
            final(ptx).tx_mode() == old(ptx).tx_mode() && final(ptx).has_read() && (old(ptx).has_written() ==> final(ptx).has_written()),
            final(ptx).spec_env() == old(ptx).spec_env(), final(ptx)@.deps == old(ptx)@.deps,
            ret matches Ok(f) ==> {
                &&& final(ptx)@.files.contains_key(f.id) && f.rec() == always_rule(final(ptx)@.files[f.id], old(ptx).spec_env().runid)
                &&& f.name@ == norm_name(old(ptx).spec_env(), name.pview())
                &&& (old(ptx)@.files.contains_key(f.id) ==> final(ptx)@.files == old(ptx)@.files)
                &&& (!old(ptx)@.files.contains_key(f.id) ==> allow_add && final(ptx)@.files == old(ptx)@.files.insert(f.id, fresh_rec(f.name@)))
                &&& (forall|i: i64| #[trigger] final(ptx)@.files.contains_key(i) && final(ptx)@.files[i].name == f.name@ ==> i == f.id)
            },
            ret is Err ==> final(ptx)@.files == old(ptx)@.files,
    { unimplemented!() }

    /// TRUSTED (stat / lstat of base/name): the stamp of the file as it is now.
    #[verifier::external_body]
    pub fn read_stamp(&self, v: &Env) -> (ret: Result<Stamp, RedoError>)
        ensures ret matches Ok(s) ==> s@ == cur_stamp(self.name@),
    { unimplemented!() }

    /// TRUSTED (SQL join over Deps): the recorded edges of this target, in some order, each source once.
    #[verifier::external_body]
    pub fn deps(&self, ptx: &ProcessTransaction) -> (ret: Result<Vec<(DepMode, File)>, RedoError>)
        ensures
            ret matches Ok(v) ==> {
                &&& (self.is_override || !self.is_generated ==> v@.len() == 0)
                &&& (forall|i: int| 0 <= i < v@.len() ==> {
                        let s = #[trigger] v@[i].1;
                        &&& ptx@.deps.contains_key((self.id, s.id)) && ptx@.deps[(self.id, s.id)].mode == v@[i].0
                        &&& ptx@.files.contains_key(s.id) && s.rec() == always_rule(ptx@.files[s.id], ptx.spec_env().runid)
                    })
                &&& (forall|i: int, j: int| 0 <= i < j < v@.len() ==> (#[trigger] v@[i]).1.id != (#[trigger] v@[j]).1.id)
                &&& (!(self.is_override || !self.is_generated) ==>
                        forall|s: i64| #[trigger] ptx@.deps.contains_key((self.id, s)) ==> exists|i: int| 0 <= i < v@.len() && (#[trigger] v@[i]).1.id == s)
            },
    { unimplemented!() }

    /// TRUSTED (SQL `update Deps set delete_me=1 where target=?`)
    #[verifier::external_body]
    pub fn zap_deps1(&mut self, ptx: &mut ProcessTransaction) -> (ret: Result<(), RedoError>)
        requires old(ptx).can_write(),
        ensures
            final(ptx).after_write(old(ptx)),
            *final(self) == *old(self), final(ptx).spec_env() == old(ptx).spec_env(), final(ptx)@.files == old(ptx)@.files,
            ret is Ok ==> final(ptx)@.deps.dom() == old(ptx)@.deps.dom()
                && forall|k: (i64, i64)| #[trigger] old(ptx)@.deps.contains_key(k) ==>
                     final(ptx)@.deps[k] == (if k.0 == old(self).id { Edge { mode: old(ptx)@.deps[k].mode, delete_me: true } } else { old(ptx)@.deps[k] }),
    { unimplemented!() }

    /// TRUSTED (SQL `delete from Deps where target=? and delete_me=1`)
    #[verifier::external_body]
    pub fn zap_deps2(&mut self, ptx: &mut ProcessTransaction) -> (ret: Result<(), RedoError>)
        requires old(ptx).can_write(),
        ensures
            final(ptx).after_write(old(ptx)),
            *final(self) == *old(self), final(ptx).spec_env() == old(ptx).spec_env(), final(ptx)@.files == old(ptx)@.files,
            ret is Ok ==> forall|k: (i64, i64)| (#[trigger] final(ptx)@.deps.contains_key(k) <==>
                     old(ptx)@.deps.contains_key(k) && !(k.0 == old(self).id && old(ptx)@.deps[k].delete_me)),
            ret is Ok ==> forall|k: (i64, i64)| #[trigger] final(ptx)@.deps.contains_key(k) ==> final(ptx)@.deps[k] == old(ptx)@.deps[k],
    { unimplemented!() }
}
