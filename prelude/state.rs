// Shared trusted prelude for the units that talk about state::File, the database and stamps.
// Everything in here is TRUSTED (specifications of code that is not verified: SQLite-backed
// bodies, std path types, the file system).  Repository functions that appear here with
// external_body are hash-pinned by //@pin lines in the unit templates.

// ---- R-os: path / string types are opaque byte strings with a ghost view --------------------
#[verifier::external_body]
pub struct RedoPathBuf { _p: () }
/// R-os: the borrowed and the owned redo path type are one opaque type here.
pub type RedoPath = RedoPathBuf;
#[verifier::external_body]
pub struct PathBuf { _p: () }
pub type Path = PathBuf;
#[verifier::external_body]
pub struct OsString { _p: () }
#[verifier::external_body]
pub struct TempDir { _p: () }
impl OsString {
    pub uninterp spec fn view(&self) -> Seq<char>;
}
impl RedoPathBuf {
    pub uninterp spec fn view(&self) -> Seq<char>;
    #[verifier::external_body]
    pub fn clone(&self) -> (r: RedoPathBuf) ensures r@ == self@ { unimplemented!() }
}
pub uninterp spec fn path_join(a: Seq<char>, b: Seq<char>) -> Seq<char>;
/// R-generic: every path-like argument (`AsRef<Path>` / `NixPath`) is viewed as its characters
pub trait PathLike { spec fn pview(&self) -> Seq<char>; }
impl PathLike for PathBuf { open spec fn pview(&self) -> Seq<char> { self@ } }
impl PathLike for RedoPathBuf { open spec fn pview(&self) -> Seq<char> { self@ } }
impl PathLike for OsString { open spec fn pview(&self) -> Seq<char> { self@ } }
impl PathBuf {
    pub uninterp spec fn view(&self) -> Seq<char>;
    /// TRUSTED (std::path::Path::join)
    #[verifier::external_body]
    pub fn join<P: PathLike>(&self, p: &P) -> (r: PathBuf) ensures r@ == path_join(self@, p.pview()) { unimplemented!() }
    /// TRUSTED (PathBuf::new / PathBuf::push: push is join in place)
    #[verifier::external_body]
    pub fn new() -> (r: PathBuf) ensures r@ == Seq::<char>::empty() { unimplemented!() }
    #[verifier::external_body]
    pub fn push<P: PathLike>(&mut self, p: &P) ensures final(self)@ == path_join(old(self)@, p.pview()) { unimplemented!() }
    /// TRUSTED (std::path::Path::exists): does the path exist right now
    #[verifier::external_body]
    pub fn exists(&self) -> (r: bool) ensures r == path_exists(self@) { unimplemented!() }
    /// TRUSTED (other std::path::Path probes; each implies existence, none is implied by it)
    #[verifier::external_body]
    pub fn is_file(&self) -> (r: bool) ensures r == path_is_file(self@), r ==> path_exists(self@) { unimplemented!() }
    #[verifier::external_body]
    pub fn is_dir(&self) -> (r: bool) ensures r == path_is_dir(self@), r ==> path_exists(self@) { unimplemented!() }
    #[verifier::external_body]
    pub fn is_symlink(&self) -> (r: bool) ensures r == path_is_symlink(self@) { unimplemented!() }
}

#[verifier::external_body]
pub struct RedoError { _p: () }
// RedoErrorKind: the real enum, extracted from src/error.rs by units/inc/state_items.vrs
pub trait Msg {}
impl Msg for &str {}
impl Msg for String {}
/// one link of an error's `source()` chain: a RedoError (with its kind) or an error of another type
pub enum ErrNode { Redo(RedoErrorKind), Foreign }
/// the exit code of the first ImmediateExit in a chain (builder::immediate_exit_code is proved to compute it, unit record)
pub open spec fn first_immediate(c: Seq<ErrNode>) -> Option<i32>
    decreases c.len()
{
    if c.len() == 0 { None } else {
        match c[0] { ErrNode::Redo(RedoErrorKind::ImmediateExit(code)) => Some(code), _ => first_immediate(c.skip(1)) }
    }
}
/// the first kind other than Generic in a chain (RedoErrorKind::of is proved to compute it, unit gluebins)
pub open spec fn first_nongeneric(c: Seq<ErrNode>) -> RedoErrorKind
    decreases c.len()
{
    if c.len() == 0 { RedoErrorKind::Generic } else {
        match c[0] {
            ErrNode::Redo(k) => if k != RedoErrorKind::Generic { k } else { first_nongeneric(c.skip(1)) },
            ErrNode::Foreign => first_nongeneric(c.skip(1)),
        }
    }
}
/// `&(dyn std::error::Error + 'static)`  TRUSTED (std::error::Error: source(), downcast_ref)
#[verifier::external_body]
pub struct DynError { _p: () }
impl DynError {
    /// this error followed by its source() chain; never empty
    pub uninterp spec fn chain(&self) -> Seq<ErrNode>;
    /// `err.downcast_ref::<RedoError>()`
    #[verifier::external_body]
    pub fn downcast_redo(&self) -> (r: Option<&RedoError>)
        ensures
            self.chain().len() >= 1,
            self.chain()[0] matches ErrNode::Redo(k) ==> (r matches Some(e) && e.kind() == k && e.chain() == self.chain()),
            self.chain()[0] is Foreign ==> r is None,
    { unimplemented!() }
    /// `err.source()`
    #[verifier::external_body]
    pub fn source(&self) -> (r: Option<&DynError>)
        ensures
            self.chain().len() >= 1,
            self.chain().len() == 1 ==> r is None,
            self.chain().len() > 1 ==> (r matches Some(s) && s.chain() == self.chain().skip(1)),
    { unimplemented!() }
}
impl RedoError {
    pub uninterp spec fn kind(&self) -> RedoErrorKind;
    /// the error itself followed by its source() chain
    pub uninterp spec fn chain(&self) -> Seq<ErrNode>;
    /// `e.kind()` in executable code
    #[verifier::external_body]
    pub fn kind_ref(&self) -> (r: &RedoErrorKind) ensures *r == self.kind() { unimplemented!() }
    /// the unsizing coercion `&RedoError` -> `&dyn Error`; the chain of a RedoError starts with itself
    #[verifier::external_body]
    pub fn as_dyn(&self) -> (r: &DynError)
        ensures r.chain() == self.chain(), self.chain().len() >= 1, self.chain()[0] == ErrNode::Redo(self.kind()),
    { unimplemented!() }
    /// opaque_error keeps the message only: "The error is not presented on the source chain"
    #[verifier::external_body]
    pub fn opaque_error<E>(e: E) -> (r: RedoError) ensures r.kind() == RedoErrorKind::Generic, r.chain() == seq![ErrNode::Redo(RedoErrorKind::Generic)] { unimplemented!() }
    #[verifier::external_body]
    pub fn new<S: Msg>(msg: S) -> (r: RedoError) ensures r.kind() == RedoErrorKind::Generic, r.chain() == seq![ErrNode::Redo(RedoErrorKind::Generic)] { unimplemented!() }
    #[verifier::external_body]
    pub fn immediate_exit<S: Msg>(code: i32, msg: S) -> (r: RedoError)
        ensures r.kind() == RedoErrorKind::ImmediateExit(code), r.chain() == seq![ErrNode::Redo(RedoErrorKind::ImmediateExit(code))],
    { unimplemented!() }
    #[verifier::external_body]
    pub fn from_kind(k: RedoErrorKind) -> (r: RedoError) ensures r.kind() == k, r.chain() == seq![ErrNode::Redo(k)] { unimplemented!() }
    /// `RedoError::wrap(cause, msg)`: a Generic error whose source() is the cause (error.rs, pinned in unit sched); the cause is a
    /// RedoError or an error of another type (one Foreign link)
    #[verifier::external_body]
    pub fn wrap<E: Cause, S: Msg>(cause: E, msg: S) -> (r: RedoError)
        ensures r.kind() == RedoErrorKind::Generic, r.chain() == seq![ErrNode::Redo(RedoErrorKind::Generic)] + cause.cause_chain(),
    { unimplemented!() }
}
/// what `wrap` accepts as a cause (`E: Error + Send + Sync + 'static` in error.rs)
pub trait Cause { spec fn cause_chain(&self) -> Seq<ErrNode>; }
impl Cause for RedoError { open spec fn cause_chain(&self) -> Seq<ErrNode> { self.chain() } }
impl From<RedoErrorKind> for RedoError {
    #[verifier::external_body]
    fn from(k: RedoErrorKind) -> (r: RedoError) ensures r.kind() == k, r.chain() == seq![ErrNode::Redo(k)] { unimplemented!() }
}
/// R-closure: `.map(|e| e.kind())` on the result of downcast_ref
pub fn opt_kind<'a>(o: Option<&'a RedoError>) -> (r: Option<&'a RedoErrorKind>)
    ensures o is None ==> r is None, o matches Some(e) ==> (r matches Some(k) && *k == e.kind()),
{
    match o { None => None, Some(e) => Some(e.kind_ref()) }
}
#[verifier::external]
impl core::fmt::Debug for RedoError { fn fmt(&self, f: &mut core::fmt::Formatter<'_>) -> core::fmt::Result { Ok(()) } }
#[verifier::external_body]
pub fn fmt_stub__() -> String { unimplemented!() }

/// R-std: Option::map_or (std documentation): the default for None, else the function's result
pub assume_specification<T, U, F: FnOnce(T) -> U>[ Option::<T>::map_or ](o: Option<T>, default: U, f: F) -> (r: U)
    requires o matches Some(x) ==> f.requires((x,)),
    ensures o is None ==> r == default, o matches Some(x) ==> f.ensures((x,), r);
// ---- Stamp: abstract except for equality, MISSING and the override rule -----------------------
#[verifier::external_body]
pub struct Stamp { _p: () }
pub uninterp spec fn missing_stamp() -> Seq<char>;
/// the (mtime, size) criterion of a stamp: its first two '-'-separated fields
pub uninterp spec fn stamp_crit(s: Seq<char>) -> Seq<char>;
impl Stamp {
    pub uninterp spec fn view(&self) -> Seq<char>;
    /// R-os: the constant Stamp::MISSING
    #[verifier::external_body]
    pub fn missing() -> (r: Stamp) ensures r@ == missing_stamp() { unimplemented!() }
    #[verifier::external_body]
    pub fn clone(&self) -> (r: Stamp) ensures r@ == self@ { unimplemented!() }
}
/// R-std: PathBuf == PathBuf compares the paths (same characters)
impl PartialEqSpecImpl for PathBuf {
    open spec fn obeys_eq_spec() -> bool { true }
    open spec fn eq_spec(&self, other: &PathBuf) -> bool { self@ == other@ }
}
impl PartialEq for PathBuf {
    #[verifier::external_body]
    fn eq(&self, o: &PathBuf) -> (r: bool) { unimplemented!() }
}
impl PartialEqSpecImpl for Stamp {
    open spec fn obeys_eq_spec() -> bool { true }
    open spec fn eq_spec(&self, other: &Stamp) -> bool { self@ == other@ }
}
impl PartialEq for Stamp {
    #[verifier::external_body]
    fn eq(&self, o: &Stamp) -> (r: bool) { unimplemented!() }
}
pub open spec fn stamp_view(s: Option<Stamp>) -> Option<Seq<char>> {
    match s { Some(x) => Some(x@), None => None }
}

// ---- the database as seen through a transaction ------------------------------------------------
pub struct FileRec {
    pub name: Seq<char>,
    pub is_generated: bool,
    pub is_override: bool,
    pub checked_runid: Option<i64>,
    pub changed_runid: Option<i64>,
    pub failed_runid: Option<i64>,
    pub stamp: Option<Seq<char>>,
    pub csum: Seq<char>,
}
pub struct Edge { pub mode: DepMode, pub delete_me: bool }
pub struct Db {
    pub files: Map<i64, FileRec>,
    /// (target id, source id) -> edge
    pub deps: Map<(i64, i64), Edge>,
}
pub uninterp spec fn always_name() -> Seq<char>;
/// the name a path is stored under: relative to the project base, lexically cleaned (state::relpath); C15's subject
pub uninterp spec fn norm_name(env: Env, name: Seq<char>) -> Seq<char>;
/// a row just inserted by `insert into Files (name) values (?)`
pub open spec fn fresh_rec(name: Seq<char>) -> FileRec {
    FileRec { name, is_generated: false, is_override: false, checked_runid: None, changed_runid: None, failed_runid: None, stamp: None, csum: Seq::empty() }
}
/// The rule of File::from_cols_with_runid: the //ALWAYS row reads as changed in the current run.
pub open spec fn always_rule(r: FileRec, runid: Option<i64>) -> FileRec {
    if r.name == always_name() && runid is Some {
        FileRec { changed_runid: Some(match r.changed_runid {
            Some(c) => if runid.unwrap() >= c { runid.unwrap() } else { c },
            None => runid.unwrap() }), ..r }
    } else { r }
}

#[verifier::external_body]
pub struct ProcessState { _p: () }
#[verifier::external_body]
pub struct ProcessTransaction<'a> { _p: core::marker::PhantomData<&'a ()> }
impl ProcessState {
    pub uninterp spec fn spec_env(&self) -> Env;
    #[verifier::external_body]
    pub fn env(&self) -> (r: &Env) ensures *r == self.spec_env() { unimplemented!() }
    /// `wrote == 0`: no statement has been written outside a finished transaction
    pub uninterp spec fn spec_flushed(&self) -> bool;
    /// TRUSTED getter (state.rs: `self.wrote == 0`)
    #[verifier::external_body]
    pub fn is_flushed(&self) -> (r: bool) ensures r == self.spec_flushed() { unimplemented!() }
}
/// SQLite transaction modes (BEGIN DEFERRED / IMMEDIATE / EXCLUSIVE)
pub enum TxMode { Deferred, Immediate, Exclusive }
impl<'a> ProcessTransaction<'a> {
    /// the database as this transaction currently sees it (committed state + its own writes)
    pub uninterp spec fn view(&self) -> Db;
    pub uninterp spec fn spec_env(&self) -> Env;
    /// C16 typestate: how the transaction was begun, whether it has read, whether it already holds the write lock
    pub uninterp spec fn tx_mode(&self) -> TxMode;
    pub uninterp spec fn has_read(&self) -> bool;
    pub uninterp spec fn has_written(&self) -> bool;
    /// TRUSTED statement of SQLite's behaviour: a write is safe (waits under the busy timeout instead of failing at once
    /// with SQLITE_BUSY) if the transaction took the write lock when it began, or already holds it, or has not read yet
    pub open spec fn can_write(&self) -> bool { self.tx_mode() != TxMode::Deferred || self.has_written() || !self.has_read() }
    pub open spec fn same_tx(&self, o: &ProcessTransaction) -> bool { self.tx_mode() == o.tx_mode() }
    pub open spec fn after_read(&self, o: &ProcessTransaction) -> bool { self.tx_mode() == o.tx_mode() && self.has_written() == o.has_written() && self.has_read() }
    pub open spec fn after_write(&self, o: &ProcessTransaction) -> bool { self.tx_mode() == o.tx_mode() && self.has_written() && self.has_read() == o.has_read() }
    #[verifier::external_body]
    pub fn state(&self) -> (r: &ProcessState) ensures r.spec_env() == self.spec_env() { unimplemented!() }
}

// ---- the file system as read during one call (a fixed snapshot: "sources are not edited during a run")
pub uninterp spec fn cur_stamp(name: Seq<char>) -> Seq<char>;
pub uninterp spec fn path_exists(name: Seq<char>) -> bool;
pub uninterp spec fn path_is_file(name: Seq<char>) -> bool;
pub uninterp spec fn path_is_dir(name: Seq<char>) -> bool;
pub uninterp spec fn path_is_symlink(name: Seq<char>) -> bool;
