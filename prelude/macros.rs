// R-log: logging / debug-print macros expand to nothing (arguments are not evaluated).
#[allow(unused_macros)]
macro_rules! debug_jobserver { ($($arg:tt)*) => {{}} }
#[allow(unused_macros)]
macro_rules! log_debug { ($($arg:tt)*) => {{}} }
#[allow(unused_macros)]
macro_rules! log_debug2 { ($($arg:tt)*) => {{}} }
#[allow(unused_macros)]
macro_rules! log_debug3 { ($($arg:tt)*) => {{}} }
#[allow(unused_macros)]
macro_rules! log_warn { ($($arg:tt)*) => {{}} }
#[allow(unused_macros)]
macro_rules! log_err { ($($arg:tt)*) => {{}} }
#[allow(unused_macros)]
macro_rules! eprintln { ($($arg:tt)*) => {{}} }
#[allow(unused_macros)]
macro_rules! eprint { ($($arg:tt)*) => {{}} }
#[allow(unused_macros)]
macro_rules! println { ($($arg:tt)*) => {{}} }
