"""setup_cmd: verify the tools the checks need are present; build nothing else (pure python + verus)."""
import shutil, subprocess, sys, os
ok = True
for tool in ('verus',):
    p = shutil.which(tool)
    print('%s: %s' % (tool, p))
    ok = ok and bool(p)
r = subprocess.run(['verus', '--version'], capture_output=True, text=True)
print(r.stdout.strip())
os.makedirs(os.path.join(os.path.dirname(os.path.dirname(os.path.abspath(__file__))), 'build'), exist_ok=True)
# build the concrete-probe binary once (cargo is incremental afterwards); a failure here only disables the probes
from vk import cex
exe = cex.build_replay()
print('redo-replay:', exe or ('NOT BUILT: ' + cex._built.get('err', '')))
sys.exit(0 if ok and r.returncode == 0 else 1)
