#!/bin/sh
# run every claimed check (quick tier) and show a one-line summary each; evidence files are rewritten
cd /verif
for p in $(python3 -c "import json; print(' '.join(sorted(json.load(open('props.json')))))"); do
  out=$(./check $p --tier ${1:-quick} 2>&1); rc=$?
  echo "$p rc=$rc $(echo "$out" | grep -E '^(OK|VIOLATION|UNDECIDED)' | head -2 | cut -c1-160)"
done
