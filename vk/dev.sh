#!/bin/sh
# dev helper: assemble + verus one unit, show errors
cd /verif
python3 - "$1" <<'PY'
import sys; sys.path.insert(0,'/verif')
from vk.assemble import assemble
u=assemble('/verif/units/%s.vrs'%sys.argv[1],'/verif/build/%s.rs'%sys.argv[1])
print(u.rule_counts)
if u.lost: print('LOST REGIONS:', u.lost)
PY
[ $? -eq 0 ] || exit 2
cd build && verus $1.rs --output-json --time --multiple-errors 50 --num-threads 8 > $1.json 2> $1.err; echo "exit=$?"; head -${2:-80} $1.err; python3 -c "
import json,sys; d=json.load(open('$1.json')); print(d['verification-results']); print(d['times-ms']['total'])"
