"""Run the units of one property through Verus, classify the outcome, write evidence.

exit 0  every obligation tagged with the property was generated from the current tree and discharged
exit 1  a tagged obligation failed (VIOLATION line printed)
exit 2  UNDECIDED (lost anchor, unsupported construct, hash pin mismatch, resource limit, tool error)
"""
import hashlib
import json
import os
import re
import shutil
import subprocess
import sys
import time
from concurrent.futures import ThreadPoolExecutor

from .assemble import assemble, ROOT, REPO
from .rscan import ExtractError

BUILD = os.environ.get('VERIF_BUILD', os.path.join(ROOT, 'build'))   # (VERIF_BUILD / VERIF_EVIDENCE_DIR / VERIF_REPO: development only)
VERUS = shutil.which('verus') or 'verus'

OBLIGATION_MSGS = (
    'postcondition not satisfied',
    'precondition not satisfied',
    'assertion failed',
    'invariant not satisfied',
    'possible arithmetic underflow/overflow',
    'possible division by zero',
    'decreases not satisfied',
    'could not prove termination',
    'loop invariant not satisfied',
    'unreachable',
    'possible bit shift underflow/overflow',
    'constructed value may fail to meet its declared type invariant',
    'recommendation not met',
    'possible truncation',
    'cannot show invariant holds',
    'failed to prove',
    'index out of bounds',
)
RESOURCE_MSGS = ('Resource limit', 'rlimit', 'timed out', 'solver stopped')


class Undecided(Exception):
    pass


def load_props():
    return json.load(open(os.path.join(ROOT, 'props.json')))


def load_findings():
    out = []
    p = os.path.join(ROOT, 'known_findings.txt')
    if not os.path.exists(p):
        return out
    for l in open(p):
        l = l.strip()
        if not l.startswith('finding:'):
            continue
        m = re.match(r'finding:\s*property=(\S+)\s+obligation=(\S+)\s*(.*)', l)
        if m:
            mi = re.search(r'inputs="([^"]*)"', m.group(3))
            out.append(dict(prop=m.group(1), obligation=m.group(2), text=m.group(3),
                            inputs=[x.strip() for x in mi.group(1).split('|')] if mi else None))
    return out


def repo_rev():
    try:
        rev = subprocess.run(['git', '-C', REPO, 'rev-parse', 'HEAD'], capture_output=True, text=True).stdout.strip()
        dirty = subprocess.run(['git', '-C', REPO, 'status', '--porcelain', '--untracked-files=no'],
                               capture_output=True, text=True).stdout.strip()
        return rev, bool(dirty)
    except Exception:
        return 'unknown', True


def count_obligations(air_path):
    """#(location ..) nodes per Function-Def section."""
    counts = {}
    cur = None
    if not os.path.exists(air_path):
        return counts
    with open(air_path, errors='replace') as fh:
        for l in fh:
            if l.startswith(';; Function-'):
                if l.startswith(';; Function-Def '):
                    cur = l.split(None, 2)[2].strip()
                    counts.setdefault(cur, 0)
                else:
                    cur = None
            elif cur is not None and '(location' in l:
                counts[cur] += l.count('(location')
    return counts


def run_verus(unit_name, src_path, extra=(), threads=8, log_air=True, timeout=1800):
    logdir = os.path.join(BUILD, unit_name + '.log')
    if log_air:
        shutil.rmtree(logdir, ignore_errors=True)
    cmd = [VERUS, os.path.basename(src_path), '--output-json', '--time', '--multiple-errors', '100',
           '--error-format=json', '--num-threads', str(threads)]
    if log_air:
        cmd += ['--log', 'air-final', '--log-dir', os.path.basename(logdir)]
    cmd += list(extra)
    t0 = time.time()
    try:
        p = subprocess.run(cmd, cwd=os.path.dirname(src_path), capture_output=True, text=True, timeout=timeout)
    except subprocess.TimeoutExpired:
        raise Undecided('verus timed out on unit %s after %ds' % (unit_name, timeout))
    wall = time.time() - t0
    try:
        js = json.loads(p.stdout)
    except Exception:
        raise Undecided('verus produced no JSON for unit %s: %s' % (unit_name, (p.stderr or p.stdout)[-2000:]))
    diags = []
    for l in p.stderr.split('\n'):
        l = l.strip()
        if l.startswith('{'):
            try:
                d = json.loads(l)
            except Exception:
                continue
            diags.append(d)
    return js, diags, wall, ' '.join(cmd), p.stderr


class UnitResult:
    pass


def analyse(unit, js, diags):
    """-> dict(fn_status, failures, hard_errors, resource)"""
    res = UnitResult()
    vr = js.get('verification-results', {})
    res.verified = vr.get('verified', 0)
    res.errors = vr.get('errors', 0)
    res.fn = {}
    try:
        for mod in js['times-ms']['smt']['smt-run-module-times']:
            for fb in mod.get('function-breakdown', []):
                short = fb['function'].split('::')[-1]
                res.fn[short] = dict(full=fb['function'], success=fb['success'], ms=fb['time'], rlimit=fb['rlimit'],
                                     mode=fb.get('mode:', ''))
    except KeyError:
        pass
    res.failures = []
    res.hard = []
    res.resource = []
    for d in diags:
        if d.get('level') != 'error':
            continue
        msg = d.get('message', '')
        if msg.startswith('aborting due to'):
            continue
        spans = d.get('spans', [])
        if any(k in msg for k in RESOURCE_MSGS):
            res.resource.append(msg)
            continue
        if not any(msg.startswith(k) or k in msg for k in OBLIGATION_MSGS):
            res.hard.append(d.get('rendered', msg))
            continue
        prim = [s for s in spans if s.get('is_primary')] or spans
        fn = None
        for s in prim + spans:
            for name, (a, b) in unit.func_spans.items():
                if a <= s['line_start'] <= b:
                    fn = name
                    break
            if fn:
                break
        if fn is None:
            # proof fn / lemma in the template: find the enclosing `fn name`
            ln = prim[0]['line_start'] if prim else 0
            for k in range(ln - 1, -1, -1):
                m = re.search(r'\bfn\s+(\w+)', unit.out_lines[k]) if k < len(unit.out_lines) else None
                if m and not unit.out_lines[k].lstrip().startswith('//'):
                    fn = m.group(1)
                    break
        label = None
        props = None
        # the primary span (the failed clause) first; a secondary span that covers a whole body says nothing about which clause
        for s in prim + [x for x in spans if not x.get('is_primary') and x['line_end'] - x['line_start'] <= 3]:
            # a clause that spans several labelled lines (one `ensures` of `&&&` conjuncts) is ONE obligation for the verifier:
            # it is reported under its first label and attributed to the properties of ALL its labels (any conjunct may be
            # the one that failed)
            for ln in range(s['line_start'], s['line_end'] + 1):
                if ln in unit.labels:
                    p_, l_ = unit.labels[ln]
                    if label is None:
                        props, label = list(p_), l_
                    else:
                        props = props + [x for x in p_ if x not in props]
            if label:
                break
        p0 = prim[0] if prim else None
        where = None
        text = ''
        if p0:
            o = unit.origin[p0['line_start'] - 1] if p0['line_start'] - 1 < len(unit.origin) else None
            text = ' '.join(unit.out_lines[p0['line_start'] - 1].split()) if p0['line_start'] - 1 < len(unit.out_lines) else ''
            if o:
                where = '%s:%d' % (('/repo/' + o[1]) if o[0] == 'repo' else ('/verif/' + o[1]), o[2])
        # call-site precondition failures: primary span is the callee's requires clause, secondary the call
        site = None
        for s in spans:
            o = unit.origin[s['line_start'] - 1] if s['line_start'] - 1 < len(unit.origin) else None
            if o and o[0] == 'repo':
                site = ('/repo/%s:%d' % (o[1], o[2]), ' '.join(unit.out_lines[s['line_start'] - 1].split()))
                # function containing the call site is where the obligation lives
                for name, (a, b) in unit.func_spans.items():
                    if a <= s['line_start'] <= b:
                        fn = name
                break
        kind = msg.split(':')[0]
        if label:
            oid = '%s/%s/%s' % (unit.name, fn, label)
        else:
            key = (site[1] if site else text)
            oid = '%s/%s/%s@%s' % (unit.name, fn, kind.replace(' ', '_'), hashlib.sha1(key.encode()).hexdigest()[:8])
        res.failures.append(dict(fn=fn, msg=msg, label=label, props=props, where=where, text=text,
                                 site=site, oid=oid, rendered=d.get('rendered', '')))
    return res


def tags_of(unit, fn):
    for f in unit.funcs:
        if f.outname == fn:
            return f.tags
    m = unit.lemma_tags.get(fn) if hasattr(unit, 'lemma_tags') else None
    return m or []


LEMMA_TAG_RE = re.compile(r'//\s*@tags\s+([C0-9 ]+)')


def collect_lemma_tags(unit):
    """`// @tags C08 C09` on the line before a proof fn in the template tags that lemma."""
    unit.lemma_tags = {}
    for i, l in enumerate(unit.out_lines):
        m = LEMMA_TAG_RE.search(l)
        if m:
            for k in range(i + 1, min(i + 4, len(unit.out_lines))):
                m2 = re.search(r'\bfn\s+(\w+)', unit.out_lines[k])
                if m2:
                    unit.lemma_tags[m2.group(1)] = m.group(1).split()
                    break


def scan_trusted(unit):
    """mechanical assumption scan over the assembled file"""
    out = []
    pat = re.compile(r'external_body|assume_specification|external_type_specification|\bassume\(|\badmit\(|verifier::external\b|external_fn_specification')
    lines = unit.out_lines
    for i, l in enumerate(lines):
        if l.lstrip().startswith('//'):
            continue
        m = pat.search(l)
        if not m:
            continue
        # describe by the next fn/struct line
        desc = ''
        for k in range(i, min(i + 6, len(lines))):
            m2 = re.search(r'\b(fn|struct|enum|type)\s+(\w+)|assume_specification\s*(<[^>]*>)?\s*\[\s*([^\]]+)\]', lines[k])
            if m2:
                desc = m2.group(4) or (m2.group(1) + ' ' + m2.group(2))
                break
        o = unit.origin[i]
        out.append('%s: %s (%s:%d)' % (m.group(0).rstrip('('), desc.strip(), o[1], o[2]))
    return out


def check_property(prop, tier, seed):
    t0 = time.time()
    os.environ['VERIF_TIER_EFFECTIVE'] = tier
    cfg = load_props()
    if prop not in cfg:
        print('UNDECIDED reason=property %s is not claimed' % prop)
        return 2
    pc = cfg[prop]
    findings = [f for f in load_findings() if f['prop'] == prop]
    os.makedirs(BUILD, exist_ok=True)
    rev, dirty = repo_rev()
    units = []
    undecided = []
    all_fail = []
    ev_units = []
    obligations = 0
    failed_count = 0
    fn_under_contract = []
    trusted = []
    samples = []
    rule_apps = {}
    solver_ms = 0
    cmds = []
    glue_used = []
    pins = []
    mutants_report = []
    seen_fns = set()
    undecided_units = []
    lost_elsewhere = []
    pins_changed = []
    labels_props = {}
    for uname in pc['units']:
        tmpl = os.path.join(ROOT, 'units', uname + '.vrs')
        out = os.path.join(BUILD, '%s_%s.rs' % (uname, prop))
        try:
            unit = assemble(tmpl, out)
        except ExtractError as e:
            undecided.append('extraction failed in unit %s: %s' % (uname, e))
            continue
        collect_lemma_tags(unit)
        for nm, why, ltags in unit.lost:
            # a lost leaf region concerns the properties it is tagged with: for the others the unit is as decidable as before
            # (a function that CALLS the lost piece no longer compiles, which is a hard error for every property of the unit)
            if ltags and prop not in ltags:
                lost_elsewhere.append('%s/%s (tagged %s): %s' % (uname, nm, ' '.join(ltags), why))
                continue
            undecided.append('extraction of %s/%s failed (left out; the rest of the unit is still checked): %s' % (uname, nm, why))
            if uname not in undecided_units:
                undecided_units.append(uname)
        extra = []
        if tier == 'thorough':
            extra = ['--rlimit', '40']
        if seed:
            extra += ['--smt-option', 'smt.random_seed=%d' % (seed % 100000), '--smt-option', 'sat.random_seed=%d' % (seed % 100000)]
        try:
            js, diags, wall, cmd, stderr = run_verus('%s_%s' % (uname, prop), out, extra=extra)
        except Undecided as e:
            undecided.append(str(e))
            continue
        cmds.append('cd /verif/build && ' + cmd)
        res = analyse(unit, js, diags)
        for ln_, (props_, label_) in unit.labels.items():
            labels_props[(uname, label_)] = props_
        if res.hard:
            # a helper the change split off (a method or function of the same source files that the unit does not
            # extract): paste its body at the call sites (R-inline; only for bodies without return / ? / loops) and retry
            missing = sorted(set(re.findall(r"no method named `(\w+)` found|cannot find function `(\w+)`", '\n'.join(res.hard))))
            names = [a or b for a, b in missing]
            if names:
                try:
                    unit2 = assemble(tmpl, out, inlines=names)
                    if unit2.inlines:
                        collect_lemma_tags(unit2)
                        js, diags, wall2, cmd, stderr = run_verus('%s_%s' % (uname, prop), out, extra=extra)
                        wall += wall2
                        unit = unit2
                        res = analyse(unit, js, diags)
                        cmds.append('cd /verif/build && ' + cmd + '   # after R-inline of ' + ', '.join(n for n, _ in unit.inlines))
                except (ExtractError, Undecided) as e:
                    undecided.append('R-inline failed in unit %s: %s' % (uname, e))
        if res.hard:
            undecided.append('verus rejected unit %s (not a proof failure): %s' % (uname, res.hard[0][:1500]))
            undecided_units.append(uname)
            continue
        # resource limits: one retry with 4x rlimit
        if res.resource:
            try:
                js, diags, wall2, cmd, stderr = run_verus('%s_%s' % (uname, prop), out, extra=extra + ['--rlimit', '160'])
                wall += wall2
                res = analyse(unit, js, diags)
            except Undecided as e:
                undecided.append(str(e))
                continue
            if res.resource:
                undecided.append('resource limit in unit %s: %s' % (uname, res.resource[0]))
                continue
        # canary must fail
        can = res.fn.get('canary__')
        if not can or can['success']:
            undecided.append('canary verified in unit %s: trusted prelude is inconsistent' % uname)
            continue
        air = count_obligations(os.path.join(BUILD, '%s_%s.log' % (uname, prop), 'root-final.air'))
        lost_names = set(x[0] for x in unit.lost)
        tagged = [f for f in unit.funcs if prop in f.tags and f.kind != 'item' and f.outname not in lost_names]
        lemmas = [n for n, t in unit.lemma_tags.items() if prop in t]
        names = [f.outname for f in tagged] + lemmas
        if not names:
            undecided.append('unit %s has no function tagged %s' % (uname, prop))
            continue
        for n in names:
            f_ = next((f for f in unit.funcs if f.outname == n), None)
            if f_ is not None and (f_.repo_file, f_.sha, n) in seen_fns:
                continue  # same extracted text already counted in another unit of this property (shared include)
            if f_ is not None:
                seen_fns.add((f_.repo_file, f_.sha, n))
            st = res.fn.get(n)
            full = st['full'] if st else None
            nob = 0
            for k, v in air.items():
                if k.split('::')[-1] == n:
                    nob += v
                    full = k
            if st is None and nob == 0:
                undecided.append('vacuity guard: %s/%s generated no obligation' % (uname, n))
                continue
            obligations += nob
            solver_ms += st['ms'] if st else 0
            f = next((f for f in unit.funcs if f.outname == n), None)
            fn_under_contract.append(dict(
                unit=uname, fn=n, verus_name=full, obligations=nob,
                success=bool(st and st['success']) if st else True,
                solver_ms=st['ms'] if st else 0, rlimit=st['rlimit'] if st else 0,
                source=('/repo/%s:%d' % (os.path.relpath(f.repo_file, REPO), f.repo_line)) if f else 'lemma in units/%s.vrs' % uname,
                text_sha256=f.sha if f else None,
                kind=(f.kind if f else 'lemma')))
        for fl in res.failures:
            if fl['fn'] == 'canary__':
                continue
            props = fl['props'] or tags_of(unit, fl['fn'])
            if prop in props:
                all_fail.append(fl)
        for p in unit.pins:
            if p['tags'] and prop not in p['tags']:
                continue
            pins.append('%s::%s %s' % (p['file'], p['name'], 'ok' if p['ok'] else 'CHANGED (%s)' % p['actual']))
            if not p['ok']:
                undecided.append('trusted body %s::%s changed (hash %s, pinned %s): its trusted specification may be stale'
                                 % (p['file'], p['name'], p['actual'], p['sha']))
                pins_changed.append('%s::%s' % (p['file'], p['name']))
                if uname not in undecided_units:
                    undecided_units.append(uname)
        for g in unit.glue:
            glue_used.append('%s at %s %s' % (g['id'], g.get('at', '?'), 'ok' if g['ok'] else 'CHANGED (%s)' % g['actual']))
            if not g['ok']:
                undecided.append('glue entry %s changed (hash %s, pinned %s)' % (g['id'], g['actual'], g['sha']))
                if uname not in undecided_units:
                    undecided_units.append(uname)   # a probe on the real code may still decide
        trusted += ['[%s] %s' % (uname, t) for t in scan_trusted(unit)]
        for r, c in unit.rule_counts.items():
            rule_apps['%s:%s' % (uname, r)] = c
        if unit.rule_warnings:
            rule_apps['%s:warnings' % uname] = unit.rule_warnings
        # samples: labelled obligations of tagged functions
        for ln, (props, label) in sorted(unit.labels.items()):
            if prop in props and len(samples) < 12:
                o = unit.origin[ln - 1]
                samples.append(dict(obligation='%s/%s' % (uname, label), clause=' '.join(unit.out_lines[ln - 1].split()),
                                    at='%s:%d' % (o[1], o[2])))
        units.append((unit, res))
        # teeth
        if tier == 'thorough':
            muts = [m for m in unit.mutants if prop in m['props']]

            def run_mut(m):
                mo = os.path.join(BUILD, '%s_%s_mut_%s.rs' % (uname, prop, m['name']))
                try:
                    mu = assemble(tmpl, mo, mutation=(m['fn'], m['rx'], m['repl']))
                except ExtractError as e:
                    return dict(mutant=m['name'], result='not-applicable', why=str(e))
                collect_lemma_tags(mu)
                try:
                    mjs, mdi, mw, mc, _ = run_verus('%s_%s_mut_%s' % (uname, prop, m['name']), mo, threads=2, log_air=False)
                except Undecided as e:
                    return dict(mutant=m['name'], result='undecided', why=str(e))
                mres = analyse(mu, mjs, mdi)
                if mres.hard:
                    return dict(mutant=m['name'], result='rejected-by-verus', why=mres.hard[0][:300])
                killed = [x['oid'] for x in mres.failures if x['fn'] != 'canary__' and prop in (x['props'] or tags_of(mu, x['fn']))]
                os.remove(mo)
                return dict(mutant=m['name'], fn=m['fn'], result='killed' if killed else 'SURVIVED', by=killed[:4])
            with ThreadPoolExecutor(max_workers=6) as ex:
                mutants_report += list(ex.map(run_mut, muts))

    # --- decide
    from . import cex
    conformance_note = []
    if undecided_units:
        # Verus could not decide these units: a contract clause (or a trusted spec of a changed pinned body) that fails
        # on the real code for a concrete input is still a sound violation; clauses that hold change nothing.
        try:
            conc = cex.conformance(prop, undecided_units, pins_changed, labels_props)
        except Exception as e:
            conc = []
            conformance_note.append('conformance probes failed to run: %s' % e)
        conformance_note.append('conformance probes run for undecided units %s: %d concrete failure(s)' % (undecided_units, len(conc)))
        for fl in conc:
            kf = next((f for f in findings if f['obligation'] == fl['oid']), None)
            if kf and kf.get('inputs') is not None and set(fl.get('inputs') or []) <= set(kf['inputs']):
                continue
            all_fail.append(fl)
    # bounded probes that accompany the proof on every run (never counted as proved): concrete failures are violations with inputs
    try:
        bfails, bnotes = cex.bounded(prop, [u for u in pc['units'] if u not in undecided_units], labels_props)
    except Exception as e:
        bfails, bnotes = [], ['bounded probes failed to run: %s' % e]
    conformance_note += bnotes
    for fl in bfails:
        if not any(x['oid'] == fl['oid'] for x in all_fail):
            all_fail.append(fl)
    known_printed = []
    violations = []
    for fl in all_fail:
        kf = next((f for f in findings if f['obligation'] == fl['oid']), None)
        if kf and not (kf.get('inputs') is not None and fl.get('inputs') and not set(fl['inputs']) <= set(kf['inputs'])):
            known_printed.append((kf, fl))
        else:
            violations.append(fl)
    # a known finding that names its failing inputs is re-validated on the real code in the thorough tier: a
    # different failing input of the same obligation is a violation, not the recorded finding
    if tier == 'thorough':
        for kf, fl in list(known_printed):
            if kf.get('inputs') is None:
                continue
            now = cex.known_inputs(prop, fl['oid'])
            if now is None:
                conformance_note.append('known finding %s: no probe available, inputs not re-validated' % fl['oid'])
                continue
            extra = sorted(set(now) - set(kf['inputs']))
            conformance_note.append('known finding %s: failing inputs on the real code now: %s' % (fl['oid'], now))
            if extra:
                v = dict(fl, msg='known-finding obligation fails for inputs that are not recorded: %s' % extra, inputs=extra)
                known_printed.remove((kf, fl))
                violations.append(v)
    # obligations recorded as known findings are reported separately and are not part of the proof-level claim
    known_oids = sorted(set(fl['oid'] for _, fl in known_printed))
    n_known_sites = len(known_printed)
    obligations_total = obligations
    obligations = max(0, obligations - len(known_oids))
    failed_count = len(set((v['oid'], v['where']) for v in violations))
    wall = time.time() - t0
    status = 0
    if undecided:
        status = 2
    if violations:
        status = 1
    ev = dict(
        property_id=prop, tier=tier, seed=seed, level=pc.get('level', 'proof'),
        coverage=dict(
            obligations=obligations, discharged=max(0, obligations - failed_count),
            checker_cmd=' ; '.join(cmds) if cmds else 'none (extraction failed)',
            trusted_base=sorted(set(trusted)) + ['verus 0.2026.09.13 + bundled z3', 'vk extraction scripts (/verif/vk)'],
            samples=samples or [dict(note='no labelled clause for this property')],
            functions_under_contract=fn_under_contract,
            backend='verus (z3)', solver_ms=solver_ms,
            rule_applications=rule_apps,
            pinned_trusted_bodies=pins, glue=glue_used,
            not_decided=pc.get('not_decided', []),
            bounded=[n for n in conformance_note if n.startswith('bounded probe')],
            teeth=mutants_report,
            obligations_generated_in_total=obligations_total,
            known_finding_obligations=known_oids,
            known_findings_note=('%d obligation(s) fail on this tree and are recorded in known_findings.txt; they are excluded from obligations/discharged above and listed here' % len(known_oids)) if known_oids else 'none',
            repo_rev=rev, repo_dirty=dirty,
            undecided=undecided,
            lost_regions_of_other_properties=lost_elsewhere,
            conformance=conformance_note,
            failed_obligations=[dict(obligation=f['oid'], msg=f['msg'], at=f['where'], site=f['site']) for f in all_fail],
        ),
        assumptions=pc.get('assumptions', []),
        wall_s=round(wall, 2), violations=len(violations),
    )
    evdir = os.environ.get('VERIF_EVIDENCE_DIR', os.path.join(ROOT, 'evidence'))
    os.makedirs(evdir, exist_ok=True)
    with open(os.path.join(evdir, prop + '.json'), 'w') as fh:
        json.dump(ev, fh, indent=1)
    printed = set()
    for kf, fl in known_printed:
        if fl['oid'] in printed:
            continue
        printed.add(fl['oid'])
        print('KNOWN-FINDING: property=%s %s %s' % (prop, fl['oid'], kf['text']))
    for u in undecided:
        print('UNDECIDED reason=%s' % u)
    if violations:
        os.makedirs(os.path.join(ROOT, 'replays'), exist_ok=True)
        h = hashlib.sha1(('|'.join(sorted(v['oid'] for v in violations))).encode()).hexdigest()[:10]
        rp = os.path.join(ROOT, 'replays', '%s-%s.json' % (prop, h))
        found = cex.search(prop, violations, tier, seed)
        if not found:
            ci = [dict(obligation=v['oid'], failing_inputs=v['inputs']) for v in violations if v.get('inputs')]
            found = dict(source='conformance probe', failing=ci) if ci else None
        with open(rp, 'w') as fh:
            json.dump(dict(property=prop, repo_rev=rev, repo_dirty=dirty,
                           failed_obligations=[dict(obligation=v['oid'], message=v['msg'], clause_or_stmt=v['text'],
                                                    at=v['where'], call_site=v['site'], verifier_output=v['rendered'])
                                               for v in violations],
                           counterexample=found,
                           rerun='./check %s --replay %s' % (prop, rp)), fh, indent=1)
        for v in violations:
            print('FAILED-OBLIGATION %s: %s at %s' % (v['oid'], v['msg'], (v['site'][0] if v['site'] else v['where'])))
        print('VIOLATION property=%s replay=%s%s' % (prop, rp, '' if found else ' no-failing-input-found'))
    surv = [m for m in mutants_report if m['result'] == 'SURVIVED']
    for m in surv:
        print('WEAK-CLAUSE mutant %s survived' % m['mutant'])
    if status == 0:
        print('OK property=%s obligations=%d discharged=%d functions=%d wall=%.1fs' %
              (prop, obligations, obligations - failed_count, len(fn_under_contract), wall))
    return status


def main(argv):
    import argparse
    ap = argparse.ArgumentParser()
    ap.add_argument('prop')
    ap.add_argument('--tier', default=os.environ.get('VERIF_TIER', 'quick'))
    ap.add_argument('--replay')
    a = ap.parse_args(argv)
    seed = int(os.environ.get('VERIF_SEED', '0') or 0)
    if a.replay:
        from . import cex
        return cex.replay(a.prop, a.replay)
    return check_property(a.prop, a.tier if a.tier in ('quick', 'thorough') else 'quick', seed)


if __name__ == '__main__':
    sys.exit(main(sys.argv[1:]))
