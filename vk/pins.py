"""python3 -m vk.pins UNIT [--update]: show (or rewrite in the templates) the hashes of //@pin and //@glue lines."""
import sys, os
from .assemble import assemble, ROOT
name = sys.argv[1]
tmpl = os.path.join(ROOT, 'units', name + '.vrs')
u = assemble(tmpl, os.path.join(ROOT, 'build', name + '.rs'))
files = {}
def lines_of(f):
    if f not in files:
        files[f] = open(f).read().split('\n')
    return files[f]
for p in u.pins:
    print('pin %s::%s pinned=%s actual=%s %s' % (p['file'], p['name'], p['sha'], p['actual'], 'ok' if p['ok'] else 'DIFF'))
    if '--update' in sys.argv and not p['ok']:
        L = lines_of(p['tfile'])
        parts = L[p['line'] - 1].split(' :: ')
        if len(parts) > 3:
            parts[3] = p['actual']
        else:
            parts.append(p['actual'])
        L[p['line'] - 1] = ' :: '.join(parts)
for g in u.glue:
    print('glue %s pinned=%s actual=%s %s' % (g['id'], g['sha'], g['actual'], 'ok' if g['ok'] else 'DIFF'))
    if '--update' in sys.argv and not g['ok'] and g['actual'] != 'anchor-lost':
        L = lines_of(g['tfile'])
        parts = L[g['line'] - 1].split(' :: ')
        if len(parts) > 6:
            parts[6] = g['actual']
        else:
            parts.append(g['actual'])
        L[g['line'] - 1] = ' :: '.join(parts)
if '--update' in sys.argv:
    for f, L in files.items():
        open(f, 'w').write('\n'.join(L))
