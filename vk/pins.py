"""python3 -m vk.pins UNIT [--update]: show (or rewrite in the template) the hashes of //@pin and //@glue lines."""
import re, sys, os
from .assemble import assemble, ROOT
name = sys.argv[1]
tmpl = os.path.join(ROOT, 'units', name + '.vrs')
u = assemble(tmpl, os.path.join(ROOT, 'build', name + '.rs'))
lines = open(tmpl).read().split('\n')
for p in u.pins:
    print('pin %s::%s pinned=%s actual=%s %s' % (p['file'], p['name'], p['sha'], p['actual'], 'ok' if p['ok'] else 'DIFF'))
    if '--update' in sys.argv and not p['ok']:
        l = lines[p['line'] - 1]
        parts = l.split(' :: ')
        parts[3:4] = [p['actual']] if len(parts) > 3 else []
        if len(parts) <= 3:
            parts.append(p['actual'])
        lines[p['line'] - 1] = ' :: '.join(parts)
for g in u.glue:
    print('glue %s pinned=%s actual=%s %s' % (g['id'], g['sha'], g['actual'], 'ok' if g['ok'] else 'DIFF'))
    if '--update' in sys.argv and not g['ok'] and g['actual'] != 'anchor-lost':
        l = lines[g['line'] - 1]
        parts = l.split(' :: ')
        if len(parts) > 6:
            parts[6] = g['actual']
        else:
            parts.append(g['actual'])
        lines[g['line'] - 1] = ' :: '.join(parts)
if '--update' in sys.argv:
    open(tmpl, 'w').write('\n'.join(lines))
