"""R-slice: keep only the statements of a region that can touch a set of tracked variables.

A region body is split into statements (token level, no parser).  A statement is KEPT when it mentions a tracked identifier;
compound statements (`if` / `while` / `for` / `loop` / plain block) that are kept are sliced recursively inside their
blocks; everything else is replaced by blank lines (line count preserved).  `let` statements whose initializer takes a
mutable borrow of a tracked variable (the initializer IS `&mut x..` or `x..._mut()`), or that bind a closure mentioning
one, add the bound names to the tracked set (an alias must not escape the slice).  ASSUMED: a function that takes `&mut x`
as an argument does not return an alias of it that is then used without naming x.  The last expression of a block (no `;`) is never dropped.

A dropped statement that contains `?` is replaced by `if nondet__() { return Err(err_any__()); }` so that its early exit
stays a path of the slice; statements containing return / continue / break are always kept.

What is lost: everything else the dropped statements do.  What is sound to conclude from the slice: frame facts about the
tracked variables (a dropped statement cannot name them, so it cannot read or write them), NOT facts about values that
flow through dropped statements (a kept statement that uses a name defined by a dropped `let` does not compile, and the
unit ends UNDECIDED).
"""
import re
from .rscan import tokenize, match_close, ExtractError

BLOCK_KW = ('if', 'while', 'for', 'loop', 'unsafe')


def _stmt_spans(toks, lo, hi):
    """yield (first_tok, last_tok_inclusive, ends_with_semicolon) for the statements of toks[lo:hi] (a block's inside)"""
    out = []
    i = lo
    while i < hi:
        start = i
        first = toks[i]
        blocky = first.kind == 'ident' and first.text in BLOCK_KW or first.text == '{' or (first.kind == 'lifetime')
        depth = 0
        j = i
        end = None
        semi = False
        while j < hi:
            t = toks[j]
            if t.kind == 'punct' and t.text in '([{':
                depth += 1
            elif t.kind == 'punct' and t.text in ')]}':
                depth -= 1
                if depth == 0 and t.text == '}' and blocky:
                    nxt = toks[j + 1] if j + 1 < hi else None
                    if nxt is None or not (nxt.text in ('else', '.', '?', ';', ')', ',', '=', '==', '&&', '||', '+', '-', '*', '/', 'as')):
                        end = j
                        break
            elif t.kind == 'punct' and t.text == ';' and depth == 0:
                end = j
                semi = True
                break
            j += 1
        if end is None:
            end = hi - 1   # tail expression
        out.append((start, end, semi))
        i = end + 1
    return out


def slice_text(text, tracked_rx):
    """text: the region's text (a statement sequence, or a `{ ... }` block).  Returns (new_text, n_dropped, n_kept, tracked)."""
    tracked = set(x for x in tracked_rx.split('|') if x)
    wrapped = not text.lstrip().startswith('{')
    src = ('{' + text + '}') if wrapped else text
    toks = tokenize(src)
    off = 1 if wrapped else 0
    drops = []   # (start_byte, end_byte) in src
    stats = dict(dropped=0, kept=0)

    def mentions(a, b):
        return any(t.kind == 'ident' and t.text in tracked for t in toks[a:b + 1])

    def taint(a, b):
        # `let PAT = EXPR;`
        if toks[a].text != 'let':
            return
        eq = None
        depth = 0
        for k in range(a, b + 1):
            t = toks[k]
            if t.kind == 'punct' and t.text in '([{':
                depth += 1
            elif t.kind == 'punct' and t.text in ')]}':
                depth -= 1
            elif t.text == '=' and depth == 0:
                eq = k
                break
        if eq is None:
            return
        expr = src[toks[eq].end:toks[b].end]
        alias = False
        e0 = expr.strip().lstrip('=').strip()
        for name in list(tracked):
            # the initializer IS a mutable borrow of a tracked variable (`&mut x`, `&mut x.f`, `&mut *x`) or ends in a
            # `.._mut()` accessor on it.  A call that merely takes `&mut x` as an argument is assumed not to return an alias.
            if re.match(r'^&\s*mut\s+(\*\s*)?%s\b[\w.]*\s*;?$' % re.escape(name), e0) or re.match(r'^%s\b[\w.()]*\.\w*_mut\s*\(\s*\)\s*;?$' % re.escape(name), e0):
                alias = True
            if re.search(r'(^|[=(,\s])(move\s*)?\|[^|]*\|', expr) and re.search(r'\b%s\b' % re.escape(name), expr):
                alias = True
        if alias:
            for t in toks[a + 1:eq]:
                if t.kind == 'ident' and t.text not in ('mut', 'ref') and not t.text[0].isupper():
                    tracked.add(t.text)

    def walk(lo, hi):
        spans = _stmt_spans(toks, lo, hi)
        for n, (a, b, semi) in enumerate(spans):
            last = (n == len(spans) - 1)
            if mentions(a, b):
                stats['kept'] += 1
                taint(a, b)
                first = toks[a]
                if first.kind == 'ident' and first.text in ('if', 'while', 'for', 'loop') or first.text == '{':
                    # recurse into the statement's own blocks (not into match arms / closures / struct literals)
                    k = a
                    while k <= b:
                        if toks[k].text == '{' and toks[k].kind == 'punct':
                            kc = match_close(toks, k)
                            prev = toks[k - 1] if k > 0 else None
                            is_match_body = False
                            # a `{` that follows `match EXPR` at depth 0 is an arm list
                            d = 0
                            for q in range(k - 1, a - 1, -1):
                                tq = toks[q]
                                if tq.kind == 'punct' and tq.text in ')]}':
                                    d += 1
                                elif tq.kind == 'punct' and tq.text in '([{':
                                    d -= 1
                                if d == 0 and tq.kind == 'ident' and tq.text == 'match':
                                    is_match_body = True
                                    break
                                if d == 0 and tq.kind == 'ident' and tq.text in ('if', 'while', 'for', 'loop', 'else'):
                                    break
                            if not is_match_body:
                                walk(k + 1, kc)
                            k = kc + 1
                        elif toks[k].kind == 'punct' and toks[k].text in '([':
                            k = match_close(toks, k) + 1
                        else:
                            k += 1
            else:
                if last and not semi:
                    stats['kept'] += 1   # tail expression: value of the block
                    continue
                if any(t.kind == 'ident' and t.text in ('return', 'continue', 'break') for t in toks[a:b + 1]):
                    stats['kept'] += 1   # control flow is never dropped
                    continue
                stats['dropped'] += 1
                # a dropped statement that can leave the function early through `?` keeps that exit (with an arbitrary error)
                early = any(t.kind == 'punct' and t.text == '?' for t in toks[a:b + 1])
                drops.append((toks[a].start, toks[b].end, early))
    walk(1, len(toks) - 1)
    out = src
    for s, e, early in sorted(drops, reverse=True):
        out = out[:s] + ('if nondet__() { return Err(err_any__()); }' if early else '') + '\n' * out[s:e].count('\n') + out[e:]
    if wrapped:
        out = out[1:-1]
    return out, stats['dropped'], stats['kept'], sorted(tracked)
