"""Concrete probes of the real crate: counterexample search and conformance of trusted specs (DESIGN 6.3, 11).

Verus yields no model.  /verif/replay is a small crate that links /repo built with the feature
`zombiezen_redo_rs_verif` (add-only hooks, see MANIFEST.hooks) and runs real functions on small
concrete inputs.  A probe evaluates contract clauses on the observed results:

* after a VIOLATION: to attach a failing input to the replay file (`search`);
* for a known finding that names its failing inputs: to check that exactly those inputs fail (`validate_known`);
* when Verus cannot decide a unit (construct outside its subset, or a hash-pinned trusted body changed): a clause
  that fails on a concrete input is a sound violation; clauses that hold on the inputs tried change nothing - the
  unit stays UNDECIDED (`conformance`).

All of this is bounded exploration in support of the proof, never counted as proved.
"""
import json
import os
import shutil
import subprocess
import sys
import tempfile

ROOT = os.path.dirname(os.path.dirname(os.path.abspath(__file__)))
REPO = os.environ.get('VERIF_REPO', '/repo')
BUILD_DIR = os.environ.get('VERIF_BUILD', os.path.join(ROOT, 'build'))   # development only, as in run.py
TARGET = os.path.join(BUILD_DIR, 'replay-target')
_built = {}


def build_replay():
    """(Re)build the probe binary against the current /repo working tree.  Returns its path or None."""
    if 'bin' in _built:
        return _built['bin']
    try:
        rdir = os.path.join(ROOT, 'replay')
        if REPO != '/repo':
            # development only (VERIF_REPO): a copy of the probe crate that depends on that tree instead of /repo
            rdir = os.path.join(BUILD_DIR, 'replay-src')
            shutil.rmtree(rdir, ignore_errors=True)
            shutil.copytree(os.path.join(ROOT, 'replay'), rdir, ignore=shutil.ignore_patterns('target'))
            m = open(os.path.join(rdir, 'Cargo.toml')).read().replace('path = "/repo"', 'path = "%s"' % REPO)
            open(os.path.join(rdir, 'Cargo.toml'), 'w').write(m)
        shutil.copy(os.path.join(REPO, 'Cargo.lock'), os.path.join(rdir, 'Cargo.lock'))
        env = dict(os.environ, CARGO_NET_OFFLINE='true')
        p = subprocess.run(['cargo', 'build', '--offline', '--quiet', '--manifest-path', os.path.join(rdir, 'Cargo.toml'),
                            '--target-dir', TARGET], capture_output=True, text=True, env=env, timeout=900)
        exe = os.path.join(TARGET, 'debug', 'redo-replay')
        _built['bin'] = exe if p.returncode == 0 and os.path.exists(exe) else None
        if p.returncode != 0:
            _built['err'] = p.stderr[-1500:]
    except Exception as e:  # a broken probe must never turn into an alarm or hide one
        _built['bin'] = None
        _built['err'] = str(e)
    return _built['bin']


def run_probe(name, cwd=None):
    exe = build_replay()
    if not exe:
        return None
    env = {k: v for k, v in os.environ.items() if not k.startswith('REDO') and k != 'MAKEFLAGS'}
    try:
        p = subprocess.run([exe, name], capture_output=True, text=True, timeout=120, cwd=cwd, env=env)
    except Exception:
        return None
    rows = []
    for l in p.stdout.split('\n'):
        l = l.strip()
        if l.startswith('{'):
            try:
                rows.append(json.loads(l))
            except Exception:
                pass
    return rows


# ---------------------------------------------------------------- tokens: do_force_return_tokens
def _tokens_exit_failures():
    """-> {clause label: [failing input, ...]} over every small entry state satisfying the contract's requires"""
    rows = run_probe('tokens-exit')
    if rows is None:
        return None
    out = {'exit.one_token': [], 'exit.ledger': [], 'exit.cheat_bytes': [], 'exit.no_debt_where_nobody_reads_it': []}
    for r in rows:
        if not (0 <= r['cheats'] and 0 <= r['my_tokens'] <= 1):   # requires old(self).state.inv()  (the true invariant)
            continue
        own = bool(r.get('own_cheat_pipe'))
        inp = 'top_level=%d own_cheat_pipe=%s my_tokens=%d cheats=%d children=%d' % (r['top_level'], str(own).lower(), r['my_tokens'], r['cheats'], r['children'])
        obs = dict(input=inp, observed=dict(ok=r['ok'], my_tokens_after=r['my_tokens_after'], cheats_after=r['cheats_after'],
                                            token_bytes_written=r['token_bytes'], cheat_bytes_written=r['cheat_bytes']))
        if not r['ok']:
            for k in out:
                out[k].append(dict(obs, clause='returned Err or panicked'))
            continue
        # real tokens held when leaving: what it had + tokens pre-created for abandoned children - what went back to the pipe
        real_exit = (r['my_tokens'] - r['cheats']) + r['children'] - r['token_bytes']
        if r['top_level'] == 0 and real_exit + r['cheat_bytes'] != 1:
            out['exit.one_token'].append(dict(obs, clause='real tokens at exit + debt bytes written == 1'))
        if real_exit == 1 and r['cheats'] == 0 and r['cheat_bytes'] != 0:
            out['exit.cheat_bytes'].append(dict(obs, clause='no debt byte from a process that leaves with its one real token'))
        if r['top_level'] == 0 and own and r['cheat_bytes'] != 0:
            out['exit.no_debt_where_nobody_reads_it'].append(dict(obs, clause='the outermost redo under an inherited jobserver writes no debt byte (nobody reads its cheat pipe)'))
        if not (r['top_level'] == 0 and own) and (r['my_tokens_after'] != max(real_exit, 0) or r['my_tokens_after'] > 1):
            out['exit.ledger'].append(dict(obs, clause='my_tokens_after == max(real tokens at exit, 0) <= 1'))
    return out



# ---------------------------------------------------------------- tokens: the ServerState step functions
STEP_FN = {'create': 'create_tokens', 'destroy': 'destroy_tokens', 'release': 'release', 'release_except_mine': 'release_except_mine',
           'release_mine': 'release_mine'}


def _tokens_step_failures():
    """contract clauses of units/tokens.vrs for create_tokens / destroy_tokens / release / release_except_mine / release_mine,
    evaluated on the real functions for every small entry state that satisfies the function's `requires`.
    -> {(fn, label): [failing input dicts]} or None"""
    rows = run_probe('tokens-steps')
    if rows is None:
        return None
    out = {}

    def bad(fn, label, r, clause):
        inp = '%s(my_tokens=%d cheats=%d%s)' % (fn, r['my_tokens'], r['cheats'], (' n=%d' % r['n']) if fn in ('create_tokens', 'destroy_tokens', 'release') else '')
        out.setdefault((fn, label), []).append(dict(input=inp, clause=clause, observed=dict(ok=r['ok'], my_tokens_after=r['my_tokens_after'],
                                                                                             cheats_after=r['cheats_after'], token_bytes_written=r['token_bytes'])))
    for r in rows:
        op, m, c, n = r['op'], r['my_tokens'], r['cheats'], r['n']
        fn = STEP_FN[op]
        m2, c2, tb, ok = r['my_tokens_after'], r['cheats_after'], r['token_bytes'], r['ok']
        k = min(n, c)
        if op == 'create':
            if not ok:
                bad(fn, 'create.assert_n', r, 'does not panic for n >= 0, cheats >= 0'); continue
            if c2 != c - k: bad(fn, 'create.cheats', r, 'cheats_after == cheats - min(n, cheats)')
            if m2 != m + n - k: bad(fn, 'create.tokens', r, 'my_tokens_after == my_tokens + n - min(n, cheats)')
            if (m2 - c2) != (m - c) + n: bad(fn, 'create.ledger', r, 'real_after == real + n')
        elif op == 'destroy':
            if m < n: continue   # requires
            if not ok:
                bad(fn, 'destroy.assert', r, 'does not panic when my_tokens >= n'); continue
            if m2 != m - n: bad(fn, 'destroy.tokens', r, 'my_tokens_after == my_tokens - n')
        elif op == 'release':
            if m < n: continue
            if not ok:
                bad(fn, 'release.assert_enough', r, 'does not fail when my_tokens >= n'); continue
            if m2 != m - n: bad(fn, 'release.tokens', r, 'my_tokens_after == my_tokens - n')
            if c2 != c - k: bad(fn, 'release.cheats', r, 'cheats_after == cheats - min(n, cheats)')
            if tb != n - k: bad(fn, 'release.written', r, 'token bytes written == n - min(n, cheats)')
        elif op == 'release_except_mine':
            if m <= 0: continue
            if not ok:
                bad(fn, 'release_except_mine.assert', r, 'does not fail when my_tokens > 0'); continue
            if m2 != 1: bad(fn, 'release_except_mine.one_left', r, 'my_tokens_after == 1')
            if (m2 - c2) + tb != (m - c): bad(fn, 'release_except_mine.ledger', r, 'real_after + token bytes written == real')
        elif op == 'release_mine':
            if m < 1: continue
            if not ok:
                bad(fn, 'release_mine.assert', r, 'does not fail when my_tokens >= 1'); continue
            if m2 != m - 1: bad(fn, 'release_mine.tokens', r, 'my_tokens_after == my_tokens - 1')
            if (m2 - c2) + tb != (m - c): bad(fn, 'release_mine.ledger', r, 'real_after + token bytes written == real')
    return out

# ---------------------------------------------------------------- state.rs: File::deps / zap_deps1 / zap_deps2 / add_dep
DEPS_EXPECT = {
    'declared': [['c', 's2'], ['m', 's1']],
    'after_zap_deps1': [['c', 's2'], ['m', 's1']],      # deps reports every recorded edge, marked for deletion or not
    'after_redeclare_s1': [['c', 's2'], ['m', 's1']],
    'after_zap_deps2': [['m', 's1']],                   # edges not re-declared are gone
    # a later build declares the same pair with the other mode (redo-ifcreate s1 where it said redo-ifchange s1 before)
    'redeclared_as_created': [['c', 's1']],
    'created_after_zap_deps2': [['c', 's1']],           # the declaration of THIS build survives zap_deps2
    'modified_again_after_zap_deps2': [['m', 's1']],
}


def _deps_failures():
    d = tempfile.mkdtemp(prefix='redo-verif-deps.', dir='/var/tmp')
    try:
        rows = run_probe('deps', cwd=d)
    finally:
        shutil.rmtree(d, ignore_errors=True)
    if rows is None:
        return None
    out = []
    for r in rows:
        if 'error' in r:
            out.append(dict(input='deps probe', observed=r['error'], clause='probe completes'))
            continue
        exp = DEPS_EXPECT.get(r['step'])
        if exp is not None and sorted(r['rows']) != sorted(exp):
            out.append(dict(input='target t: add_dep(Modified s1), add_dep(Created s2), zap_deps1, add_dep(Modified s1), zap_deps2; zap_deps1, add_dep(Created s1), zap_deps2; zap_deps1, add_dep(Modified s1), zap_deps2; step=' + r['step'],
                            observed=r['rows'], expected=exp,
                            clause='File::deps reports exactly the recorded edges of the target (trusted spec in prelude/state_file_trusted.rs)'))
    return out


# ---------------------------------------------------------------- helpers.rs normpath / state.rs relpath / cycles.rs
# (unit, probe name, function the clauses belong to, source location)
PROBED = (('normpath', 'normpath', 'normpath', '/src/helpers.rs:normpath'),
          ('relpath', 'relpath', 'relpath', '/src/state.rs:relpath'),
          ('locks', 'cycles', 'check', '/src/cycles.rs:check'),
          # logs.rs Meta through its exported API: 7330 records written the way Display writes them (11 kinds x 5 pids x 4
          # timestamps x 12 texts; done records for every status -255..255 and the i32 extremes x 9 names incl. spaces)
          ('logs', 'logmeta', 'Meta', '/src/logs.rs:Meta'))


def _path_failures(probe):
    """-> {clause label: [failing input dicts]}: normpath over every string up to length 10 over {/ . a} and 8 over
    {/ . a b} against an independent reference; relpath over ~180 spellings x bases in a small tree with a symlinked directory"""
    d = tempfile.mkdtemp(prefix='redo-verif-path.', dir='/var/tmp')
    try:
        rows = run_probe(probe, cwd=d)
    finally:
        shutil.rmtree(d, ignore_errors=True)
    if rows is None:
        return None
    out = {}
    for r in rows:
        if r.get('summary'):
            out['__summary__'] = r
            continue
        out.setdefault(r['clause'], []).append(dict(input=r['input'], observed=r.get('output'), expected=r.get('expected'), clause=r['clause']))
    return out



# ---------------------------------------------------------------- redo-ood against what redo-ifchange then does (real binaries; C17)
def build_redo_bin():
    """the real redo binary built from the current /repo working tree -> path of a bin dir with the 11 names, or None"""
    if 'redo_bin' in _built:
        return _built['redo_bin']
    _built['redo_bin'] = None
    try:
        tdir = os.path.join(BUILD_DIR, 'redo-target')
        env = dict(os.environ, CARGO_NET_OFFLINE='true')
        p = subprocess.run(['cargo', 'build', '--offline', '--quiet', '--bin', 'redo', '--manifest-path', os.path.join(REPO, 'Cargo.toml'),
                            '--target-dir', tdir], capture_output=True, text=True, env=env, timeout=1200)
        exe = os.path.join(tdir, 'debug', 'redo')
        if p.returncode != 0 or not os.path.exists(exe):
            _built['err'] = p.stderr[-1500:]
            return None
        bindir = os.path.join(BUILD_DIR, 'redo-bin')
        shutil.rmtree(bindir, ignore_errors=True)
        os.makedirs(bindir)
        for n in ('redo redo-always redo-ifchange redo-ifcreate redo-log redo-ood redo-sources redo-stamp redo-targets '
                  'redo-unlocked redo-whichdo').split():
            os.symlink(exe, os.path.join(bindir, n))
        _built['redo_bin'] = bindir
    except Exception as e:
        _built['err'] = str(e)
    return _built['redo_bin']


def _ood_failures(limit=None):
    """Bounded: every order of the names a/m/z on a three-target chain top -> mid -> leaf (leaf reads a source), built once,
    then every subset of the three target files deleted, or the source edited, or nothing touched but the leaf's script calls
    redo-always.  Checked on the real binaries: redo-ood lists
    nothing right after the full build; afterwards every known target that `redo-ifchange <t>` (run on a copy of the
    project) really rebuilds is listed by redo-ood.  -> (failures, n_histories) or None"""
    import itertools
    bindir = build_redo_bin()
    if not bindir:
        return None
    env = {k: v for k, v in os.environ.items() if not k.startswith('REDO') and k != 'MAKEFLAGS'}
    env['PATH'] = bindir + ':' + env.get('PATH', '')
    work = tempfile.mkdtemp(prefix='redo-verif-ood.', dir='/var/tmp')
    fails, n = [], 0

    def run(cmd, cwd):
        return subprocess.run(cmd, cwd=cwd, env=env, capture_output=True, text=True, timeout=60)
    try:
        for names in itertools.permutations(['a', 'm', 'z']):
            top, mid, leaf = names
            ops = [('delete', sub) for k in range(0, 4) for sub in itertools.combinations(names, k)] + [('edit', ()), ('always', ())]
            for op, arg in ops:
                if limit is not None and n >= limit:
                    return fails, n
                n += 1

                def history(tag):
                    """replay the history in a fresh directory (stamps hold inode and ctime, so a copy would look edited)"""
                    proj = os.path.join(work, 'p%d%s' % (n, tag))
                    os.makedirs(proj)
                    open(os.path.join(proj, leaf + '.do'), 'w').write(('redo-always\n' if op == 'always' else '') + 'redo-ifchange src\necho ran >>%s.ran\ncat src\n' % leaf)
                    open(os.path.join(proj, mid + '.do'), 'w').write('redo-ifchange %s\necho ran >>%s.ran\ncat %s\n' % (leaf, mid, leaf))
                    open(os.path.join(proj, top + '.do'), 'w').write('redo-ifchange %s\necho ran >>%s.ran\ncat %s\n' % (mid, top, mid))
                    open(os.path.join(proj, 'src'), 'w').write('v1\n')
                    r = run(['redo', top], proj)
                    if r.returncode != 0:
                        return None, None
                    fresh = [l for l in run(['redo-ood'], proj).stdout.split() if l]
                    if op == 'delete':
                        for t in arg:
                            os.unlink(os.path.join(proj, t))
                    elif op == 'edit':
                        open(os.path.join(proj, 'src'), 'w').write('v2 longer\n')
                    return proj, fresh
                hist = 'chain %s -> %s -> %s -> src; redo %s' % (top, mid, leaf, top)
                hist += ('; rm ' + ' '.join(arg) if arg else '') if op == 'delete' else ('; edit src' if op == 'edit' else ' (%s.do calls redo-always)' % leaf)
                proj, fresh = history('')
                if proj is None:
                    continue
                if fresh and op != 'always':
                    fails.append(dict(input='chain %s -> %s -> %s -> src; redo %s; redo-ood' % (top, mid, leaf, top), observed=fresh,
                                      clause='redo-ood lists nothing right after a successful full build'))
                def dump():
                    import sqlite3
                    db = sqlite3.connect(os.path.join(proj, '.redo', 'db.sqlite3'))
                    try:
                        return (db.execute('select * from Files order by rowid').fetchall(), db.execute('select * from Deps order by 1, 2').fetchall())
                    finally:
                        db.close()
                listed = None
                for q in ('redo-ood', 'redo-targets', 'redo-sources'):
                    rows0 = dump()
                    out_q = run([q], proj).stdout
                    if q == 'redo-ood':
                        listed = set(l for l in out_q.split() if l)
                    if dump() != rows0:
                        fails.append(dict(input=hist + '; ' + q, observed='the Files / Deps tables differ before and after %s' % q, label=q[5:] + '.commits_nothing',
                                          clause='a query command commits nothing: the recorded state is the same before and after it'))
                shutil.rmtree(proj, ignore_errors=True)
                for t in names:
                    cp, _ = history('.' + t)
                    if cp is None:
                        continue
                    ranf = os.path.join(cp, t + '.ran')
                    before = open(ranf).read().count('ran') if os.path.exists(ranf) else 0
                    run(['redo-ifchange', t], cp)
                    after = open(ranf).read().count('ran') if os.path.exists(ranf) else 0
                    shutil.rmtree(cp, ignore_errors=True)
                    if after > before and t not in listed:
                        fails.append(dict(input=hist + '; redo-ood; redo-ifchange ' + t, observed='redo-ood listed %s; %s.do ran' % (sorted(listed), t),
                                          clause='redo-ood lists every known target that a following redo-ifchange of it rebuilds'))
        # a dependency shared by two targets, rebuilt through ONE of them: src <- lib <- {app, tool}; full build; edit src;
        # redo-ifchange <one>; redo-ood must list exactly the other (lib is up to date again).  Every name order.
        for lib, one, other in itertools.permutations(['a', 'm', 'z']):
            if limit is not None and n >= limit:
                return fails, n
            n += 1
            proj = os.path.join(work, 'd%d' % n)
            os.makedirs(proj)
            open(os.path.join(proj, lib + '.do'), 'w').write('redo-ifchange src\ncat src\n')
            for t in (one, other):
                open(os.path.join(proj, t + '.do'), 'w').write('redo-ifchange %s\necho %s; cat %s\n' % (lib, t, lib))
            open(os.path.join(proj, 'src'), 'w').write('v1\n')
            if run(['redo', one, other], proj).returncode != 0:
                continue
            open(os.path.join(proj, 'src'), 'w').write('v2 longer\n')
            run(['redo-ifchange', one], proj)
            got = sorted(l for l in run(['redo-ood'], proj).stdout.split() if l)
            hist = 'src <- %s <- {%s, %s}; redo %s %s; edit src; redo-ifchange %s; redo-ood' % (lib, one, other, one, other, one)
            if got != [other]:
                fails.append(dict(input=hist, observed='redo-ood listed %s, exactly [%r] is out of date' % (got, other),
                                  label='ood.lists_every_definitely_stale_target' if other not in got else 'ood.lists_only_targets',
                                  clause='after a partial rebuild redo-ood lists the dependents that were not rebuilt, and only them'))
            shutil.rmtree(proj, ignore_errors=True)
    finally:
        shutil.rmtree(work, ignore_errors=True)
    return fails, n


def _names_failures(limit=None):
    """Bounded: one record, one name per file, on the real binaries.  A small tree with a symlinked directory (link -> real) and
    a symlink that leaves its directory (a/jump -> ../b/deep); eleven spellings of four files (one in a directory that the
    script creates); for every ordered pair of
    spellings a fresh project in which `redo <first>` and then `redo <second>` run.  Afterwards the Files table is read:
    every record of a *.gen file carries the physical name of the spelling that asked for it (directory part resolved,
    then cleaned), no two records denote one file, and the file that was asked for is the one that was built.
    -> (failures, n_histories) or None"""
    import itertools, sqlite3
    bindir = build_redo_bin()
    if not bindir:
        return None
    env = {k: v for k, v in os.environ.items() if not k.startswith('REDO') and k != 'MAKEFLAGS'}
    env['PATH'] = bindir + ':' + env.get('PATH', '')
    work = tempfile.mkdtemp(prefix='redo-verif-names.', dir='/var/tmp')
    spell = ['real/x.gen', 'link/x.gen', 'real/sub/../x.gen', 'link/sub/../x.gen', './real//x.gen',
             'a/x.gen', 'a/jump/../x.gen', 'b/x.gen', 'b/deep/../x.gen',
             # a directory that does not exist until the script makes it, below the symlinked directory and below the real one
             'link/new/y.gen', 'real/new/y.gen']
    fails, n = [], 0
    try:
        # absolute spellings, incl. a doubled leading slash ("$DESTDIR/$path" with DESTDIR=/) and a doubled inner one: each
        # paired with the plain relative spelling, both orders ({P} is the project directory)
        absolute = ['{P}/real/x.gen', '/{P}/real/x.gen', '{P}//link/x.gen', '/{P}/link/sub/../x.gen']
        pairs = list(itertools.permutations(spell, 2)) + [(a, 'real/x.gen') for a in absolute] + [('real/x.gen', a) for a in absolute]
        for s1, s2 in pairs:
            if limit is not None and n >= limit:
                break
            n += 1
            proj = os.path.join(work, 'p%d' % n)
            s1, s2 = s1.replace('{P}', proj), s2.replace('{P}', proj)
            for d in ('real/sub', 'a', 'b/deep'):
                os.makedirs(os.path.join(proj, d))
            os.symlink('real', os.path.join(proj, 'link'))
            os.symlink('../b/deep', os.path.join(proj, 'a', 'jump'))
            open(os.path.join(proj, 'default.gen.do'), 'w').write('mkdir -p "$(dirname "$1")"\necho "$1" >>"%s/trace"\necho made\n' % proj)
            hist = 'tree: link -> real, a/jump -> ../b/deep; redo %s; redo %s' % (s1, s2)

            def canon(sp):
                d, b = os.path.split(sp)
                return os.path.relpath(os.path.join(os.path.realpath(os.path.join(proj, d)), b), os.path.realpath(proj))
            ok = True
            for sp in (s1, s2):
                r = subprocess.run(['redo', '--no-log', sp], cwd=proj, env=env, capture_output=True, text=True, timeout=60)
                if r.returncode != 0:
                    fails.append(dict(input=hist, observed='`redo %s` exits %d: %s' % (sp, r.returncode, r.stderr.strip()[-200:]),
                                      clause='every spelling of a file is accepted and names that file'))
                    ok = False
                    break
            if ok:
                db = sqlite3.connect(os.path.join(proj, '.redo', 'db.sqlite3'))
                rows = [r[0] for r in db.execute("select name from Files where name like '%.gen'")]
                db.close()
                want = sorted(set([canon(s1), canon(s2)]))
                if sorted(rows) != want:
                    fails.append(dict(input=hist, observed='records: %s; files named: %s' % (sorted(rows), want),
                                      clause='one record per file, under its physical name (directory part resolved before cleaning)'))
                for c in want:
                    if not os.path.exists(os.path.join(proj, c)):
                        fails.append(dict(input=hist, observed='%s was asked for and does not exist' % c, clause='the file that was asked for is the one that is built'))
            shutil.rmtree(proj, ignore_errors=True)
        # the project directory itself entered through a symbolic link, as an interactive `cd` leaves it ($PWD logical)
        n += 1
        proj = os.path.join(work, 'proj-1.0')
        os.makedirs(proj)
        os.symlink('proj-1.0', os.path.join(work, 'proj'))
        open(os.path.join(proj, 'default.gen.do'), 'w').write('echo made\n')
        link = os.path.join(work, 'proj')
        r1 = subprocess.run(['redo', '--no-log', 'x.gen'], cwd=link, env=dict(env, PWD=link), capture_output=True, text=True, timeout=60)
        r2 = subprocess.run(['redo', '--no-log', 'x.gen'], cwd=proj, env=dict(env, PWD=proj), capture_output=True, text=True, timeout=60)
        hist = 'proj -> proj-1.0; (cd proj; PWD=<logical>; redo x.gen); (cd proj-1.0; redo x.gen)'
        if r1.returncode != 0 or r2.returncode != 0:
            fails.append(dict(input=hist, observed='exit %d / %d: %s' % (r1.returncode, r2.returncode, (r1.stderr + r2.stderr).strip()[-200:]), clause='every spelling of a file is accepted and names that file'))
        else:
            db = sqlite3.connect(os.path.join(proj, '.redo', 'db.sqlite3'))
            rows = sorted(r[0] for r in db.execute("select name from Files where name like '%.gen'"))
            db.close()
            if rows != ['x.gen']:
                fails.append(dict(input=hist, observed='records: %s' % rows, clause='one record per file, under its physical name (the base is a physical directory)'))
    finally:
        shutil.rmtree(work, ignore_errors=True)
    return fails, n


def _cheatpipe_failures():
    """Bounded: which cheat pipe (the pipe that carries token debts) a nested redo uses, on the real binaries.  all.do records
    the pipe behind its REDO_CHEATFDS read end (readlink /proc/self/fd/N: the kernel's pipe id) and runs `redo <flag> inner`;
    inner.do records its own.  With -jN (N >= 1) the nested redo starts a jobserver of its own and must have a cheat pipe of
    its own; without -j it joins the enclosing build and must use the same pipe.  -> (failures, n) or None"""
    bindir = build_redo_bin()
    if not bindir:
        return None
    env = {k: v for k, v in os.environ.items() if not k.startswith('REDO') and k != 'MAKEFLAGS'}
    env['PATH'] = bindir + ':' + env.get('PATH', '')
    work = tempfile.mkdtemp(prefix='redo-verif-cheat.', dir='/var/tmp')
    fails, n = [], 0
    rec = 'fd=${REDO_CHEATFDS%%,*}; readlink /proc/self/fd/$fd >"%s"\n'
    try:
        for outer_j in ('-j1', '-j3'):
            for flag, own in (('', False), ('-j1', True), ('-j2', True), ('-j5', True)):
                n += 1
                proj = os.path.join(work, 'p%d' % n)
                os.makedirs(proj)
                open(os.path.join(proj, 'all.do'), 'w').write(rec % os.path.join(proj, 'outer.pipe') + 'redo %s inner\n' % flag)
                open(os.path.join(proj, 'inner.do'), 'w').write(rec % os.path.join(proj, 'inner.pipe') + 'echo x\n')
                r = subprocess.run(['redo', outer_j, 'all'], cwd=proj, env=env, capture_output=True, text=True, timeout=60)
                hist = 'redo %s all; all.do runs `redo %s inner`' % (outer_j, flag)
                try:
                    o = open(os.path.join(proj, 'outer.pipe')).read().strip()
                    i = open(os.path.join(proj, 'inner.pipe')).read().strip()
                except OSError:
                    continue
                if r.returncode != 0 or not o.startswith('pipe:') or not i.startswith('pipe:'):
                    continue
                if own and o == i:
                    fails.append(dict(input=hist, observed='the nested redo uses the enclosing build\'s cheat pipe %s' % o,
                                      clause='a redo that is given its own -j makes a cheat pipe of its own (setup.own_jobserver_owns_its_debts)'))
                if not own and o != i:
                    fails.append(dict(input=hist, observed='the nested redo made its own cheat pipe (%s, enclosing build: %s)' % (i, o),
                                      clause='a redo without -j joins the enclosing build: same token pipe, same cheat pipe (setup.inherits_or_creates)'))
                shutil.rmtree(proj, ignore_errors=True)
    finally:
        shutil.rmtree(work, ignore_errors=True)
    return fails, n


def _conserve_failures():
    """Bounded: token conservation under an inherited (make-style) jobserver, on the real binaries: a fifo with one token is
    handed down through MAKEFLAGS, a build is run, the tokens in the fifo are counted afterwards.  Two histories in which a
    redo exits while holding a borrowed token or no token at all (scenarios/f29.sh; the demonstration of seeded C08-04,
    which also checks redo's own 'expected N tokens' self-test).  -> (failures, n) or None"""
    bindir = build_redo_bin()
    if not bindir:
        return None
    exe = os.path.join(BUILD_DIR, 'redo-target', 'debug', 'redo')
    env = {k: v for k, v in os.environ.items() if not k.startswith('REDO') and k != 'MAKEFLAGS'}
    env['REDO_BIN'] = exe
    env['TMPDIR'] = '/var/tmp'
    fails, n = [], 0
    for script, what in ((os.path.join(ROOT, 'scenarios', 'f29.sh'), 'redo a b d under a fifo jobserver with one token; a.do runs `redo c` after it had to borrow a token; the reap of a consumes the debt'),
                         (os.path.join(ROOT, 'seeded', 'C08-04', 'demo', 'demo.sh'), 'redo -j2 a b d (own jobserver) and the same under a fifo jobserver; a exits holding a borrowed token')):
        if not os.path.exists(script):
            continue
        n += 1
        bad = 0
        for attempt in (1, 2):
            try:
                r = subprocess.run(['sh', script], cwd=os.path.dirname(script), env=env, capture_output=True, text=True, timeout=200)
                rc, tail = r.returncode, (r.stdout + r.stderr).strip()[-500:]
            except subprocess.TimeoutExpired:
                rc, tail = 124, 'timed out after 200 s'
            if rc in (0, 2):   # 2: the history could not be driven (inconclusive)
                break
            bad += 1
        if bad == 2:
            fails.append(dict(input='%s: %s' % (os.path.relpath(script, ROOT), what), observed='exit %d twice: ...%s' % (rc, tail),
                              clause='the jobserver holds afterwards exactly the tokens it held before (exit.one_token / exit.no_debt_where_nobody_reads_it)'))
    return fails, n


def _contend_failures():
    """Bounded: two builders and one target, on the real binaries.  History 1: `redo -j2 a b` (a takes 1.2 s, b 2.4 s);
    while both run a second process runs `redo a`; after a has finished a third runs `redo b`.  No two executions of one
    script may overlap in time (C06), under every one of these contentions.  History 2: t.do = `redo-ifchange src; cat src`;
    two overlapping `redo t`; then src is edited and `redo-ifchange t` must run t.do and make t follow src (C01 C02 C11: the
    record used after a lock wait is the one read under the lock).  -> (failures, n) or None"""
    import time
    bindir = build_redo_bin()
    if not bindir:
        return None
    env = {k: v for k, v in os.environ.items() if not k.startswith('REDO') and k != 'MAKEFLAGS'}
    env['PATH'] = bindir + ':' + env.get('PATH', '')
    work = tempfile.mkdtemp(prefix='redo-verif-contend.', dir='/var/tmp')
    fails = []

    def intervals(trace):
        ev = [l.split() for l in open(trace).read().split('\n') if l.strip()]
        runs, open_ = {}, {}
        for kind, name, pid, ts in ev:
            if kind == 'start':
                open_[(name, pid)] = float(ts)
            else:
                runs.setdefault(name, []).append((open_.pop((name, pid), 0.0), float(ts)))
        for (name, pid), t0 in open_.items():
            runs.setdefault(name, []).append((t0, float('inf')))
        return runs
    try:
        # ---- history 1: mutual exclusion while another job of the same process finishes
        proj = os.path.join(work, 'h1')
        os.makedirs(proj)
        script = 'echo "start $1 $$ $(date +%%s.%%N)" >>"%s/trace"\nsleep %s\necho "end $1 $$ $(date +%%s.%%N)" >>"%s/trace"\necho done\n'
        open(os.path.join(proj, 'a.do'), 'w').write(script % (proj, '1.2', proj))
        open(os.path.join(proj, 'b.do'), 'w').write(script % (proj, '2.4', proj))
        p1 = subprocess.Popen(['redo', '-j2', 'a', 'b'], cwd=proj, env=env, stdout=subprocess.DEVNULL, stderr=subprocess.DEVNULL)
        t0 = time.time()
        while time.time() - t0 < 10:
            tr = os.path.join(proj, 'trace')
            if os.path.exists(tr) and open(tr).read().count('start') >= 2:
                break
            time.sleep(0.05)
        time.sleep(0.4)   # both scripts are running: somebody else asks for a
        p3 = subprocess.Popen(['redo', 'a'], cwd=proj, env=env, stdout=subprocess.DEVNULL, stderr=subprocess.DEVNULL)
        time.sleep(1.2)   # a has finished (its Lock was dropped), b is still running: somebody else asks for b
        p2 = subprocess.Popen(['redo', 'b'], cwd=proj, env=env, stdout=subprocess.DEVNULL, stderr=subprocess.DEVNULL)
        for pr in (p1, p2, p3):
            try:
                pr.wait(timeout=30)
            except subprocess.TimeoutExpired:
                pr.kill()
        runs = intervals(os.path.join(proj, 'trace'))
        for name, iv in runs.items():
            iv.sort()
            for k in range(1, len(iv)):
                if iv[k][0] < iv[k - 1][1]:
                    fails.append(dict(input='redo -j2 a b (a takes 1.2 s, b 2.4 s); while both run: redo a; after a has finished and while b runs: redo b',
                                      observed='%s.do ran twice at the same time: %s' % (name, iv), prop='C06',
                                      clause='at most one execution of a target\'s script at a time: the lock is held until the result is recorded'))
        # ---- history 2: the record used after a lock wait
        proj = os.path.join(work, 'h2')
        os.makedirs(proj)
        open(os.path.join(proj, 'src'), 'w').write('one\n')
        open(os.path.join(proj, 't.do'), 'w').write('redo-ifchange src\necho ran >>"%s/ran"\n[ -e "%s/slow" ] && sleep 1.5\ncat src\n' % (proj, proj))
        subprocess.run(['redo', 't'], cwd=proj, env=env, capture_output=True, timeout=60)
        open(os.path.join(proj, 'slow'), 'w').write('')
        before = open(os.path.join(proj, 'ran')).read().count('ran')
        q1 = subprocess.Popen(['redo', 't'], cwd=proj, env=env, stdout=subprocess.DEVNULL, stderr=subprocess.DEVNULL)
        t0 = time.time()
        while time.time() - t0 < 10 and open(os.path.join(proj, 'ran')).read().count('ran') == before:
            time.sleep(0.05)
        q2 = subprocess.Popen(['redo', 't'], cwd=proj, env=env, stdout=subprocess.DEVNULL, stderr=subprocess.DEVNULL)
        for pr in (q1, q2):
            try:
                pr.wait(timeout=30)
            except subprocess.TimeoutExpired:
                pr.kill()
        os.unlink(os.path.join(proj, 'slow'))
        open(os.path.join(proj, 'src'), 'w').write('two, longer\n')
        r = subprocess.run(['redo-ifchange', 't'], cwd=proj, env=env, capture_output=True, text=True, timeout=60)
        got = open(os.path.join(proj, 't')).read() if os.path.exists(os.path.join(proj, 't')) else None
        if r.returncode != 0 or got != 'two, longer\n':
            fails.append(dict(input='t.do = redo-ifchange src; cat src.  redo t; two overlapping `redo t`; edit src; redo-ifchange t',
                              observed='exit %d, t = %r, stderr: %s' % (r.returncode, got, r.stderr.strip()[-160:]), prop='C02',
                              clause='after waiting for another builder the target is judged and built on the record read under the lock: it keeps following its dependencies'))
    finally:
        shutil.rmtree(work, ignore_errors=True)
    return fails, 2


def _stamp_pipe_failures():
    """Bounded: redo-stamp fed through a pipe in two pieces (0.3 s apart), on the real binaries: the recorded checksum is
    the SHA-1 of ALL the data, for 3 data sets that differ only in the second piece.  -> (failures, n) or None"""
    import hashlib, sqlite3
    bindir = build_redo_bin()
    if not bindir:
        return None
    env = {k: v for k, v in os.environ.items() if not k.startswith('REDO') and k != 'MAKEFLAGS'}
    env['PATH'] = bindir + ':' + env.get('PATH', '')
    work = tempfile.mkdtemp(prefix='redo-verif-stamp.', dir='/var/tmp')
    fails, n = [], 0
    try:
        for second in ('two', 'TWO', 'two and more'):
            n += 1
            proj = os.path.join(work, 'p%d' % n)
            os.makedirs(proj)
            open(os.path.join(proj, 't.do'), 'w').write('( printf "piece one\\n"; sleep 0.3; printf "%s\\n" ) | redo-stamp\necho built\n' % second)
            r = subprocess.run(['redo', '--no-log', 't'], cwd=proj, env=env, capture_output=True, text=True, timeout=60)
            if r.returncode != 0:
                continue
            db = sqlite3.connect(os.path.join(proj, '.redo', 'db.sqlite3'))
            row = db.execute("select csum from Files where name='t'").fetchone()
            db.close()
            want = hashlib.sha1(('piece one\n%s\n' % second).encode()).hexdigest()
            if not row or row[0] != want:
                fails.append(dict(input='t.do: ( printf "piece one\\n"; sleep 0.3; printf "%s\\n" ) | redo-stamp' % second,
                                  observed='recorded checksum %s, SHA-1 of the whole input %s' % (row[0] if row else None, want),
                                  clause='the checksum redo-stamp records is the digest of all of its standard input'))
    finally:
        shutil.rmtree(work, ignore_errors=True)
    return fails, n


def _shell_line_failures():
    """Bounded: the command line a script is started with, on the real binaries.  For each of `redo`, `redo -v`, `redo -x`,
    `redo -vx`, `redo -xx`, `redo -vv`: (a) a script whose first command fails and whose later commands would succeed must
    fail the build (sh -e), one level down as well; (b) script, $1, $2, $3 arrive as built; (c) a `#!/bin/sh` script gets the
    same three arguments.  -> (failures, n) or None"""
    bindir = build_redo_bin()
    if not bindir:
        return None
    env = {k: v for k, v in os.environ.items() if not k.startswith('REDO') and k != 'MAKEFLAGS'}
    env['PATH'] = bindir + ':' + env.get('PATH', '')
    work = tempfile.mkdtemp(prefix='redo-verif-shell.', dir='/var/tmp')
    fails, n = [], 0
    try:
        for flags in ([], ['-v'], ['-x'], ['-v', '-x'], ['-x', '-x'], ['-v', '-v']):
            n += 1
            proj = os.path.join(work, 'p%d' % n)
            os.makedirs(proj)
            open(os.path.join(proj, 'bad.do'), 'w').write('false\necho late >"$3"\n')
            open(os.path.join(proj, 'app.do'), 'w').write('redo-ifchange bad\necho app-built >"$3"\n')
            open(os.path.join(proj, 'default.args.do'), 'w').write('printf "%s|%s|%s\\n" "$1" "$2" "$3" >"$3"\n')
            open(os.path.join(proj, 'she.args2.do'), 'w').write('#!/bin/sh\nprintf "%s|%s|%s\\n" "$1" "$2" "$3" >"$3"\n')
            hist = 'redo --no-log %s <target>' % ' '.join(flags)
            for tgt in ('bad', 'app'):
                r = subprocess.run(['redo', '--no-log'] + flags + [tgt], cwd=proj, env=env, capture_output=True, text=True, timeout=60)
                if r.returncode == 0 or os.path.exists(os.path.join(proj, tgt)):
                    fails.append(dict(input=hist + '; bad.do = "false; echo late >$3"; app.do = "redo-ifchange bad; echo app-built >$3"; target ' + tgt,
                                      observed='exit %d, %s %s' % (r.returncode, tgt, 'exists' if os.path.exists(os.path.join(proj, tgt)) else 'absent'),
                                      clause='a script stops at its first failing command (sh -e): the build fails and the target is not replaced', label='shell.sh_stops_at_the_first_failing_command', props=['C05', 'C13']))
            for tgt, want in (('x.args', 'x.args|x|x.args.redo.tmp'), ('she.args2', 'she.args2|she.args2|she.args2.redo.tmp')):
                r = subprocess.run(['redo', '--no-log'] + flags + [tgt], cwd=proj, env=env, capture_output=True, text=True, timeout=60)
                got = open(os.path.join(proj, tgt)).read().strip() if os.path.exists(os.path.join(proj, tgt)) else None
                if r.returncode != 0 or got != want:
                    fails.append(dict(input=hist + '; target ' + tgt, observed='exit %d, arguments seen: %r, expected %r' % (r.returncode, got, want),
                                      clause='script, $1, $2, $3 reach the script as built, with or without a #! line', label='shell.script_and_arguments_are_kept', props=['C13']))
    finally:
        shutil.rmtree(work, ignore_errors=True)
    return fails, n


def _same_target_twice_failures():
    """Bounded: one command that names the same target several times, on the real binaries (the F3 shape): `redo -jN` and a
    script's `redo-ifchange` with the spellings x, ./x, d/../x, link/x (link -> .), $PWD/x, for N in 1, 2, 3.  The command
    must exit 0 (no abort on the lock registry's assertion) and x.do must run once per command.  -> (failures, n) or None"""
    bindir = build_redo_bin()
    if not bindir:
        return None
    env = {k: v for k, v in os.environ.items() if not k.startswith('REDO') and k != 'MAKEFLAGS'}
    env['PATH'] = bindir + ':' + env.get('PATH', '')
    work = tempfile.mkdtemp(prefix='redo-verif-twice.', dir='/var/tmp')
    fails, n = [], 0
    try:
        for j in (1, 2, 3):
            for via in ('redo', 'script'):
                n += 1
                proj = os.path.join(work, 'p%d' % n)
                os.makedirs(os.path.join(proj, 'd'))
                os.symlink('.', os.path.join(proj, 'link'))
                open(os.path.join(proj, 'x.do'), 'w').write('echo ran >>x.ran\nsleep 0.3\necho x\n')
                sp = ['x', './x', 'd/../x', 'link/x', proj + '/x']
                open(os.path.join(proj, 'all.do'), 'w').write('redo-ifchange %s\n' % ' '.join(sp))
                cmd = ['redo', '--no-log', '-j%d' % j] + (sp if via == 'redo' else ['all'])
                r = subprocess.run(cmd, cwd=proj, env=env, capture_output=True, text=True, timeout=120)
                ran = open(os.path.join(proj, 'x.ran')).read().count('ran') if os.path.exists(os.path.join(proj, 'x.ran')) else 0
                hist = 'link -> .; ' + (' '.join(cmd) if via == 'redo' else 'all.do = "redo-ifchange %s"; redo --no-log -j%d all' % (' '.join(sp), j))
                if r.returncode != 0:
                    fails.append(dict(input=hist, observed='exit %d: %s' % (r.returncode, r.stderr.strip()[-240:]), label='lock_new.registry_free', prop='C09',
                                      clause='a command that names one target several times does not abort (one live Lock per file id) and exits 0'))
                if ran != 1:
                    fails.append(dict(input=hist, observed='x.do ran %d times' % ran, label='run.first_pass_dedupes_by_id', prop='C07',
                                      clause='one command hands each file to the builder at most once, whatever the spellings'))
    finally:
        shutil.rmtree(work, ignore_errors=True)
    return fails, n


def _run_group(cmd, timeout, **kw):
    """subprocess.run(capture_output, text) in a process group of its own; on timeout the WHOLE group is killed (a hung redo leaves
    scripts and nested redos behind otherwise) and subprocess.TimeoutExpired is raised"""
    import signal
    pr = subprocess.Popen(cmd, stdout=subprocess.PIPE, stderr=subprocess.PIPE, text=True, start_new_session=True, **kw)
    try:
        out, err = pr.communicate(timeout=timeout)
        return subprocess.CompletedProcess(cmd, pr.returncode, out, err)
    except subprocess.TimeoutExpired:
        try:
            os.killpg(pr.pid, signal.SIGKILL)
        except OSError:
            pass
        pr.communicate()
        raise


def _cycle_shapes_failures():
    """Bounded: dependency cycles on the real binaries.  Chains t0 -> t1 -> .. -> t(k-1) (k = 2, 3) below a top target, built
    once without a cycle; then the last script is edited to ask for t0 (the cycle is closed) and a source is edited.  Every
    member may call redo-stamp BEFORE it asks for its dependency (stamped subset: none / the first / all), so that on the
    second build an ancestor can be 'checked in this run' while its own script still runs.  For every entry point (top, each
    member) and -j1 / -j4: the command must END (20 s) with a NON-ZERO status.  -> (failures, n) or None"""
    bindir = build_redo_bin()
    if not bindir:
        return None
    env = {k: v for k, v in os.environ.items() if not k.startswith('REDO') and k != 'MAKEFLAGS'}
    env['PATH'] = bindir + ':' + env.get('PATH', '')
    work = tempfile.mkdtemp(prefix='redo-verif-cyc.', dir='/var/tmp')
    fails, n = [], 0
    try:
        shapes = [(k, stamped, entry, j, None, 'A') for k in (2, 3) for stamped in ('none', 'first', 'last', 'all') for entry in ['top'] + ['t%d' % i for i in range(k)] for j in (1, 4)]
        # the same through redo-ifchange (the out-of-band path: an uncertain checksummed dependency is built by redo-unlocked
        # while the caller keeps its lock), -j1 only
        shapes += [(k, stamped, entry, 0, None, 'A') for k in (2, 3) for stamped in ('first', 'last', 'all') for entry in ['top'] + ['t%d' % i for i in range(k)]]
        # family B: only the last member reads the source, so the others are out of date only THROUGH a (checksummed) dependency and
        # are 'uncertain' rather than dirty: the decision goes through redo-unlocked while the caller keeps its lock.  Whether the
        # cycle is run into depends on the checksums; what is required here is that the command ENDS
        shapes += [(k, stamped, entry, j, None, 'B') for k in (2, 3) for stamped in ('first', 'last', 'all') for entry in ['top'] + ['t%d' % i for i in range(k)] for j in (0, 1)]
        # the top-level command started with a REDO_CYCLES that is set but names nobody: empty, or with an empty item (the
        # value apenwarr's redo writes always carries one)
        shapes += [(2, 'none', entry, j, cyc, 'A') for cyc in ('', ':999983', '999983:') for entry in ('top', 't0', 't1') for j in (1, 4)]
        for k, stamped, entry, j, cyc, fam in shapes:
            names = ['t%d' % i for i in range(k)]
            if True:
                if True:
                    if True:
                        n += 1
                        env_ = env if cyc is None else dict(env, REDO_CYCLES=cyc)
                        proj = os.path.join(work, 'p%d' % n)
                        os.makedirs(proj)

                        def script(i, closed):
                            st = stamped == 'all' or (stamped == 'first' and i == 0) or (stamped == 'last' and i == k - 1)
                            dep = names[i + 1] if i + 1 < k else ('t0' if closed else None)
                            # only the last member reads the source: the others are out of date only THROUGH their dependency, so that a
                            # checksummed one in between makes them 'uncertain' (the out-of-band path) rather than plainly dirty
                            lines = ['redo-ifchange src'] if (fam == 'A' or i == k - 1) else []
                            if st:
                                lines.append('echo constant | redo-stamp')
                            if dep:
                                lines.append('redo-ifchange ' + dep)
                            lines.append('echo %s' % names[i])
                            return '\n'.join(lines) + '\n'
                        for i in range(k):
                            open(os.path.join(proj, names[i] + '.do'), 'w').write(script(i, False))
                        open(os.path.join(proj, 'top.do'), 'w').write('redo-ifchange side t0\necho top\n')
                        open(os.path.join(proj, 'side.do'), 'w').write('echo side\n')
                        open(os.path.join(proj, 'src'), 'w').write('one\n')
                        r = subprocess.run(['redo', '--no-log', 'top'], cwd=proj, env=env_, capture_output=True, text=True, timeout=60)
                        if r.returncode != 0:
                            continue
                        open(os.path.join(proj, names[k - 1] + '.do'), 'w').write(script(k - 1, True))
                        open(os.path.join(proj, 'src'), 'w').write('two, longer\n')
                        hist = 'chain of %d (%s), redo-stamp before the dependency in: %s; built once; %s.do now asks for t0; src edited; %sredo -j%d %s' % (k, 'every member reads src' if fam == 'A' else 'only the last member reads src', stamped, names[k - 1], '' if cyc is None else 'REDO_CYCLES=%r ' % cyc, j, entry) + ('' if j else ' [-j0 stands for: redo-ifchange <entry>]')
                        try:
                            r = _run_group((['redo', '--no-log', '-j%d' % j, entry] if j else ['redo-ifchange', entry]), 20, cwd=proj, env=env_)
                            if r.returncode == 0 and fam == 'A':
                                fails.append(dict(input=hist, observed='exit 0', clause='a build that runs into a dependency cycle ends with a non-zero status'))
                        except subprocess.TimeoutExpired:
                            fails.append(dict(input=hist, observed='still running after 20 s', clause='a build that runs into a dependency cycle ends'))
                        shutil.rmtree(proj, ignore_errors=True)
    finally:
        shutil.rmtree(work, ignore_errors=True)
    return fails, n


def _whichdo_failures():
    """Bounded: the candidate list of redo-whichdo and the script arguments, on the real binaries, against an independent
    reference -- for names the proof does not cover (non-ASCII: the proofs about DefaultDoFiles require ASCII) and odd ASCII
    ones: 14 names x 3 directories.  (a) `redo-whichdo <dir>/<name>` in a project without any .do file lists exactly
    <name>.do, then default<ext>.do from the longest extension to the shortest and default.do in the target's directory and
    in every ancestor up to the root; (b) with a default<shortest ext>.do at the top, `redo <dir>/<name>` runs it with
    $1 = <dir>/<name>, $2 = $1 without that extension.  -> (failures, n) or None"""
    bindir = build_redo_bin()
    if not bindir:
        return None
    env = {k: v for k, v in os.environ.items() if not k.startswith('REDO') and k != 'MAKEFLAGS'}
    env['PATH'] = bindir + ':' + env.get('PATH', '')
    work = tempfile.mkdtemp(prefix='redo-verif-wd.', dir='/var/tmp')
    fails, n = [], 0
    names = ['a.b.c', 'noext', '.hidden', 'a..b', 'a.b.', '\u00e9a.b', '\u00f1.tar.gz', 'a\u00e9.b', 'x.\u00e9', '\u65e5\u672c.\u8a9e.txt', '\u00fc', 'a.\u00e9\u00e9.c', '\U0001f600.o', 'k\u0308.d.e', 'default.css', 'default.min.js', 'default']
    try:
        proj = os.path.join(os.path.realpath(work), 'p')
        depth = len([c for c in proj.split('/') if c])
        for d in ('', 'sub', 'sub/deep'):
            os.makedirs(os.path.join(proj, d), exist_ok=True)
        for name in names:
            dots = [i for i, ch in enumerate(name) if ch == '.']
            exts = [name[i:] for i in dots]
            for d in ('', 'sub', 'sub/deep'):
                n += 1
                dparts = [c for c in d.split('/') if c]
                want = ['/'.join(dparts + [name + '.do'])]
                for level in range(len(dparts), -1, -1):
                    pre = dparts[:level]
                    want += ['/'.join(pre + ['default%s.do' % e]) for e in exts] + ['/'.join(pre + ['default.do'])]
                for k in range(1, depth + 1):
                    want += ['../' * k + 'default%s.do' % e for e in exts] + ['../' * k + 'default.do']
                t = '/'.join(dparts + [name])
                r = subprocess.run(['redo-whichdo', t], cwd=proj, env=env, capture_output=True, text=True, timeout=60)
                got = [l for l in r.stdout.split('\n') if l]
                if got != want:
                    k0 = next((i for i in range(min(len(got), len(want))) if got[i] != want[i]), min(len(got), len(want)))
                    fails.append(dict(input='redo-whichdo %s (no .do file anywhere)' % t, label='whichdo.lists_up_to_first_existing',
                                      observed='exit %d; candidate %d is %r, expected %r (%d listed, %d expected)%s' % (r.returncode, k0, got[k0] if k0 < len(got) else None, want[k0] if k0 < len(want) else None, len(got), len(want), ('; stderr: ' + r.stderr.strip()[-160:]) if r.returncode not in (0, 1) else ''),
                                      clause='redo-whichdo lists <name>.do, then default<ext>.do from the longest extension to the shortest and default.do, directory by directory up to the root'))
                if exts and dots[-1] > 0:
                    e = exts[-1]
                    dofile = os.path.join(proj, 'default%s.do' % e)
                    open(dofile, 'w').write('printf "%s|%s\\n" "$1" "$2" >"$3"\n')
                    r = subprocess.run(['redo', '--no-log', t], cwd=proj, env=env, capture_output=True, text=True, timeout=60)
                    got2 = open(os.path.join(proj, t)).read().strip() if os.path.exists(os.path.join(proj, t)) else None
                    want2 = '%s|%s' % (t, t[:len(t) - len(e)])
                    if not dparts and name == 'default' + e:
                        want2 = '%s|%s' % (t, t)   # here default<ext>.do IS <name>.do, the first candidate: $2 == $1
                    if r.returncode != 0 or got2 != want2:
                        fails.append(dict(input='default%s.do at the top; redo %s' % (e, t), label='args.dollar2',
                                          observed='exit %d; $1|$2 seen: %r, expected %r; %s' % (r.returncode, got2, want2, r.stderr.strip()[-160:]),
                                          clause='the script runs with $1 = the target relative to its directory and $2 = $1 without the matched extension'))
                    os.unlink(dofile)
                    if os.path.exists(os.path.join(proj, t)):
                        os.unlink(os.path.join(proj, t))
                    shutil.rmtree(os.path.join(proj, '.redo'), ignore_errors=True)
    finally:
        shutil.rmtree(work, ignore_errors=True)
    return fails, n


def _lost_reader_failures():
    """Bounded: a redo whose log reader goes away, on the real binaries.  `redo --no-log --no-pretty t` (and `-j2 t u`) with
    stderr a pipe whose reading end is closed after the first byte, while t.do is still running: the records that follow
    cannot be written.  The build must still finish (exit 0), and the target must keep following its source afterwards (no
    'you modified it', which is what a process that died between rename and COMMIT leaves).  -> (failures, n) or None"""
    bindir = build_redo_bin()
    if not bindir:
        return None
    env = {k: v for k, v in os.environ.items() if not k.startswith('REDO') and k != 'MAKEFLAGS'}
    env['PATH'] = bindir + ':' + env.get('PATH', '')
    work = tempfile.mkdtemp(prefix='redo-verif-lost.', dir='/var/tmp')
    fails, n = [], 0
    try:
        for args in (['t'], ['-j2', 't', 'u']):
            n += 1
            proj = os.path.join(work, 'p%d' % n)
            os.makedirs(proj)
            for t in ('t', 'u'):
                open(os.path.join(proj, t + '.do'), 'w').write('redo-ifchange src\nsleep 0.4\ncat src\n')
            open(os.path.join(proj, 'src'), 'w').write('one\n')
            cmd = ['redo', '--no-log', '--no-pretty'] + args
            pr = subprocess.Popen(cmd, cwd=proj, env=env, stdout=subprocess.DEVNULL, stderr=subprocess.PIPE)
            pr.stderr.read(1)
            pr.stderr.close()
            try:
                rc = pr.wait(timeout=60)
            except subprocess.TimeoutExpired:
                pr.kill()
                rc = None
            hist = '%s with stderr a pipe closed after its first byte' % ' '.join(cmd)
            got = open(os.path.join(proj, 't')).read() if os.path.exists(os.path.join(proj, 't')) else None
            if rc != 0 or got != 'one\n':
                fails.append(dict(input=hist, observed='exit %s, t = %r' % (rc, got), clause='a record that cannot be written is lost, the build goes on and succeeds'))
                continue
            open(os.path.join(proj, 'src'), 'w').write('two, longer\n')
            r = subprocess.run(['redo-ifchange', 't'], cwd=proj, env=env, capture_output=True, text=True, timeout=60)
            got = open(os.path.join(proj, 't')).read() if os.path.exists(os.path.join(proj, 't')) else None
            if r.returncode != 0 or got != 'two, longer\n':
                fails.append(dict(input=hist + '; edit src; redo-ifchange t', observed='exit %d, t = %r; %s' % (r.returncode, got, r.stderr.strip()[-200:]),
                                  clause='after a run that lost its log reader the target still follows its source'))
    finally:
        shutil.rmtree(work, ignore_errors=True)
    return fails, n


def _ifcreate_args_failures():
    """Bounded: redo-ifcreate with several paths, on the real binaries: for every list of 1..3 paths over {present, absent-a,
    absent-b} that names the existing one, the command fails and the script that ran it (sh -e) fails; for the lists that do
    not, it succeeds.  -> (failures, n) or None"""
    import itertools
    bindir = build_redo_bin()
    if not bindir:
        return None
    env = {k: v for k, v in os.environ.items() if not k.startswith('REDO') and k != 'MAKEFLAGS'}
    env['PATH'] = bindir + ':' + env.get('PATH', '')
    work = tempfile.mkdtemp(prefix='redo-verif-ifc.', dir='/var/tmp')
    fails, n = [], 0
    try:
        for k in (1, 2, 3):
            for args in itertools.permutations(['present', 'absent-a', 'absent-b'], k):
                n += 1
                proj = os.path.join(work, 'p%d' % n)
                os.makedirs(proj)
                open(os.path.join(proj, 'present'), 'w').write('x\n')
                open(os.path.join(proj, 'conf.do'), 'w').write('redo-ifcreate %s\necho built\n' % ' '.join(args))
                r = subprocess.run(['redo', '--no-log', 'conf'], cwd=proj, env=env, capture_output=True, text=True, timeout=60)
                should_fail = 'present' in args
                if (r.returncode != 0) != should_fail or os.path.exists(os.path.join(proj, 'conf')) == should_fail:
                    fails.append(dict(input='present exists; conf.do = "redo-ifcreate %s; echo built"; redo conf' % ' '.join(args),
                                      observed='exit %d, conf %s' % (r.returncode, 'built' if os.path.exists(os.path.join(proj, 'conf')) else 'not built'),
                                      clause='declaring redo-ifcreate for a path that exists is an error, wherever it stands in the argument list; for absent paths it succeeds'))
                shutil.rmtree(proj, ignore_errors=True)
    finally:
        shutil.rmtree(work, ignore_errors=True)
    return fails, n


def _temp_collision_failures():
    """Bounded: two different targets of one directory built at the same time never share a temporary, on the real binaries.
    Pairs whose names are close: x.o / x.d under default.o.do + default.d.do, report.html / report.txt, x / x.redo,
    two 250-byte names with a common 246-byte prefix (the unchanged tree refuses those: ENAMETOOLONG), a / a.b.  Each script
    writes a first line to $3, waits, appends a second.  `redo -j2 A B`: when both succeed, each target holds exactly its own
    two lines.  -> (failures, n) or None"""
    bindir = build_redo_bin()
    if not bindir:
        return None
    env = {k: v for k, v in os.environ.items() if not k.startswith('REDO') and k != 'MAKEFLAGS'}
    env['PATH'] = bindir + ':' + env.get('PATH', '')
    work = tempfile.mkdtemp(prefix='redo-verif-tmp.', dir='/var/tmp')
    fails, n = [], 0
    body = 'echo "$1 line 1" >"$3"\nsleep 0.4\necho "$1 line 2" >>"$3"\n'
    long_ = 'n' * 246
    pairs = [('x.o', 'x.d', ['default.o.do', 'default.d.do']), ('report.html', 'report.txt', ['default.html.do', 'default.txt.do']),
             ('x', 'x.redo', ['default.do']), (long_ + '-one', long_ + '-two', ['default.do']), ('a', 'a.b', ['default.do', 'default.b.do'])]
    try:
        for a, b, dofiles in pairs:
            n += 1
            proj = os.path.join(work, 'p%d' % n)
            os.makedirs(proj)
            for d in dofiles:
                open(os.path.join(proj, d), 'w').write(body)
            r = subprocess.run(['redo', '--no-log', '-j2', a, b], cwd=proj, env=env, capture_output=True, text=True, timeout=60)
            got = {t: (open(os.path.join(proj, t)).read() if os.path.exists(os.path.join(proj, t)) else None) for t in (a, b)}
            hist = 'redo -j2 %s %s (scripts write line 1 to $3, sleep, append line 2)' % (a[:40], b[:40])
            if r.returncode == 0:
                for t in (a, b):
                    if got[t] != '%s line 1\n%s line 2\n' % (t, t):
                        fails.append(dict(input=hist, observed='exit 0; %s holds %r' % (t[:40], got[t] if got[t] is None else got[t][-80:]),
                                          clause='a target becomes exactly what ITS script wrote to ITS $3: two targets never share a temporary'))
            leftovers = [f for f in os.listdir(proj) if f.endswith('.redo.tmp')]
            if leftovers:
                fails.append(dict(input=hist, observed='left behind: %s' % [f[:40] for f in leftovers], clause='no temporary output file is left behind'))
    finally:
        shutil.rmtree(work, ignore_errors=True)
    return fails, n


def _nested_j_failures():
    """Bounded: -j is respected below a redo that is given its own -j, on the real binaries.  `redo -j4 all`, all.do runs
    `redo -jK sub` (K = 1, 2), sub.do asks for four leaves that each work for 0.5 s and log start / end: never more than K
    leaves at work at once; and with no -j on the inner redo all four may (and, tokens being free, at least two do) overlap.
    -> (failures, n) or None"""
    bindir = build_redo_bin()
    if not bindir:
        return None
    env = {k: v for k, v in os.environ.items() if not k.startswith('REDO') and k != 'MAKEFLAGS'}
    env['PATH'] = bindir + ':' + env.get('PATH', '')
    work = tempfile.mkdtemp(prefix='redo-verif-nj.', dir='/var/tmp')
    fails, n = [], 0
    try:
        for inner in ('-j1', '-j2', ''):
            n += 1
            proj = os.path.join(work, 'p%d' % n)
            os.makedirs(proj)
            open(os.path.join(proj, 'all.do'), 'w').write('redo %s sub\n' % inner)
            open(os.path.join(proj, 'sub.do'), 'w').write('redo-ifchange l1.leaf l2.leaf l3.leaf l4.leaf\n')
            open(os.path.join(proj, 'default.leaf.do'), 'w').write('echo "s $1" >>%s/trace\nsleep 0.5\necho "e $1" >>%s/trace\n' % (proj, proj))
            r = subprocess.run(['redo', '--no-log', '-j4', 'all'], cwd=proj, env=env, capture_output=True, text=True, timeout=120)
            cur = mx = 0
            for l in (open(os.path.join(proj, 'trace')).read().split('\n') if os.path.exists(os.path.join(proj, 'trace')) else []):
                if l.startswith('s '):
                    cur += 1
                    mx = max(mx, cur)
                elif l.startswith('e '):
                    cur -= 1
            hist = 'redo -j4 all; all.do = "redo %s sub"; sub.do asks for four leaves of 0.5 s each' % inner
            limit = {'-j1': 1, '-j2': 2, '': 4}[inner]
            if r.returncode != 0 or mx > limit or (inner == '' and mx < 2):
                fails.append(dict(input=hist, observed='exit %d, at most %d leaves at work at once (limit %d)%s' % (r.returncode, mx, limit, '; ' + r.stderr.strip()[-160:] if r.returncode else ''),
                                  clause='the number of scripts at work below a redo with its own -j never exceeds that -j; without one the enclosing jobserver is joined'))
    finally:
        shutil.rmtree(work, ignore_errors=True)
    return fails, n


def _concurrent_state_failures():
    """Bounded: commands that overlap on one project lose no state, on the real binaries.  In a FRESH project (the first command
    creates .redo): P1 `redo a` starts and its script waits; P2 `redo-targets` / `redo-ood` run to completion beside it; P3
    `redo b` starts and its script waits; then the scripts are released in either order.  With and without --no-log.  Every
    command exits 0 without an error of redo's own; afterwards redo-targets lists a and b, redo-sources their sources, and
    after an edit of a.src redo-ood lists a: the records of both builds are there.  -> (failures, n) or None"""
    import time
    bindir = build_redo_bin()
    if not bindir:
        return None
    env = {k: v for k, v in os.environ.items() if not k.startswith('REDO') and k != 'MAKEFLAGS'}
    env['PATH'] = bindir + ':' + env.get('PATH', '')
    work = tempfile.mkdtemp(prefix='redo-verif-cs.', dir='/var/tmp')
    fails, n = [], 0

    def wait_for(path, secs=20):
        t0 = time.time()
        while not os.path.exists(path) and time.time() - t0 < secs:
            time.sleep(0.02)
        return os.path.exists(path)
    try:
        for nolog in (True, False):
            for first_out in ('a', 'b'):
                n += 1
                proj = os.path.join(work, 'p%d' % n)
                os.makedirs(proj)
                for t in ('a', 'b'):
                    open(os.path.join(proj, t + '.do'), 'w').write('redo-ifchange %s.src\n: >%s.started\nwhile [ ! -e %s.go ]; do sleep 0.05; done\nredo-ifchange %s.src2\ncat %s.src %s.src2\n' % (t, t, t, t, t, t))
                    open(os.path.join(proj, t + '.src'), 'w').write(t + ' one\n')
                    open(os.path.join(proj, t + '.src2'), 'w').write(t + ' two\n')
                opt = ['--no-log'] if nolog else []
                hist = 'fresh project; redo %s a (waits) | redo-targets; redo-ood | redo %s b (waits) | a second redo a; release %s first' % (' '.join(opt), ' '.join(opt), first_out)
                p1 = subprocess.Popen(['redo'] + opt + ['a'], cwd=proj, env=env, stdout=subprocess.PIPE, stderr=subprocess.PIPE, text=True)
                ok = wait_for(os.path.join(proj, 'a.started'))
                q1 = subprocess.run(['redo-targets'], cwd=proj, env=env, capture_output=True, text=True, timeout=60)
                q2 = subprocess.run(['redo-ood'], cwd=proj, env=env, capture_output=True, text=True, timeout=60)
                p3 = subprocess.Popen(['redo'] + opt + ['b'], cwd=proj, env=env, stdout=subprocess.PIPE, stderr=subprocess.PIPE, text=True)
                # ... and a second command that asks for `a` itself while its script runs: it finds the target locked, waits, and succeeds
                p4 = subprocess.Popen(['redo'] + opt + ['a'], cwd=proj, env=env, stdout=subprocess.PIPE, stderr=subprocess.PIPE, text=True)
                ok = wait_for(os.path.join(proj, 'b.started')) and ok
                order = ['a', 'b'] if first_out == 'a' else ['b', 'a']
                procs = {'a': p1, 'b': p3}
                rcs, errs = {}, {}
                for t in order:
                    open(os.path.join(proj, t + '.go'), 'w').close()
                    try:
                        out_, err_ = procs[t].communicate(timeout=60)
                        rcs[t], errs[t] = procs[t].returncode, err_
                    except subprocess.TimeoutExpired:
                        procs[t].kill()
                        rcs[t], errs[t] = None, 'timeout'
                try:
                    out4, err4 = p4.communicate(timeout=60)
                    rcs['a2'], errs['a2'] = p4.returncode, err4
                except subprocess.TimeoutExpired:
                    p4.kill()
                    rcs['a2'], errs['a2'] = None, 'timeout'
                if not ok or rcs.get('a') != 0 or rcs.get('b') != 0 or rcs.get('a2') != 0 or q1.returncode != 0 or q2.returncode != 0:
                    fails.append(dict(input=hist, observed='exit a=%s b=%s second-a=%s targets=%d ood=%d; %s' % (rcs.get('a'), rcs.get('b'), rcs.get('a2'), q1.returncode, q2.returncode, ((errs.get('a') or '') + (errs.get('b') or '') + (errs.get('a2') or '') + q1.stderr + q2.stderr).strip()[-240:]),
                                      clause='commands that overlap on one project succeed (none fails with an error of redo\'s own)'))
                    continue
                tg = sorted(subprocess.run(['redo-targets'], cwd=proj, env=env, capture_output=True, text=True, timeout=60).stdout.split())
                sr = sorted(subprocess.run(['redo-sources'], cwd=proj, env=env, capture_output=True, text=True, timeout=60).stdout.split())
                open(os.path.join(proj, 'a.src2'), 'w').write('a two, edited\n')
                od = sorted(subprocess.run(['redo-ood'], cwd=proj, env=env, capture_output=True, text=True, timeout=60).stdout.split())
                if tg != ['a', 'b'] or sr != ['a.do', 'a.src', 'a.src2', 'b.do', 'b.src', 'b.src2'] or od != ['a']:
                    fails.append(dict(input=hist + '; afterwards redo-targets, redo-sources, edit a.src2, redo-ood', observed='targets %s, sources %s, out of date %s' % (tg, sr, od),
                                      clause='the records written by each of the overlapping commands are all present afterwards'))
    finally:
        shutil.rmtree(work, ignore_errors=True)
    return fails, n


def _stamp_forward_failures():
    """Bounded: the checksum cut-off stops and forwards change exactly, on the real binaries.  top -> out -> list, list calls
    redo-stamp; two kinds of list: one that writes an output file and one that only pipes into redo-stamp (no file).  After a
    full build: (1) the source is rewritten with the SAME content (new mtime): list runs, out and top do not; (2) the source
    changes: `redo-ifchange top` runs list, out and top before it returns 0, and redo-ood is empty afterwards; both through the
    out-of-band path (redo-ifchange) -- at -j1 and -j3.  -> (failures, n) or None"""
    import time
    bindir = build_redo_bin()
    if not bindir:
        return None
    env = {k: v for k, v in os.environ.items() if not k.startswith('REDO') and k != 'MAKEFLAGS'}
    env['PATH'] = bindir + ':' + env.get('PATH', '')
    work = tempfile.mkdtemp(prefix='redo-verif-sf.', dir='/var/tmp')
    fails, n = [], 0
    try:
        for kind in ('file', 'pipe', 'sub'):
            for j in (1, 3):
                n += 1
                proj = os.path.join(work, 'p%d' % n)
                os.makedirs(proj)
                tr = 'echo "$1" >>%s/trace\n' % proj
                if kind == 'sub':
                    # the rules are default*.do files at the top, the targets live in sub/: every script runs in the top
                    # directory while its target's directory is sub/ (names handed from one command to the next must be
                    # spelled for the directory they are re-joined in)
                    os.makedirs(os.path.join(proj, 'sub'))
                    open(os.path.join(proj, 'default.list.do'), 'w').write(tr + 'redo-ifchange sub/src\ncat sub/src >"$3"\nredo-stamp <"$3"\n')
                    open(os.path.join(proj, 'default.out.do'), 'w').write(tr + 'redo-ifchange sub/ver.list\ncat sub/src\n')
                    open(os.path.join(proj, 'default.top.do'), 'w').write(tr + 'redo-ifchange sub/pkg.out\nprintf "top:"; cat sub/pkg.out\n')
                    open(os.path.join(proj, 'sub', 'src'), 'w').write('v1\n')
                    names_ = {'list': 'sub/ver.list', 'out': 'sub/pkg.out', 'top': 'sub/pkg.top', 'src': 'sub/src'}
                elif kind == 'file':
                    open(os.path.join(proj, 'list.do'), 'w').write(tr + 'redo-ifchange src\ncat src >"$3"\nredo-stamp <"$3"\n')
                else:
                    open(os.path.join(proj, 'list.do'), 'w').write(tr + 'redo-ifchange src\ncat src | redo-stamp\n')
                if kind != 'sub':
                    open(os.path.join(proj, 'out.do'), 'w').write(tr + 'redo-ifchange list\ncat src\n')
                    open(os.path.join(proj, 'top.do'), 'w').write(tr + 'redo-ifchange out\nprintf "top:"; cat out\n')
                    open(os.path.join(proj, 'src'), 'w').write('v1\n')
                    names_ = {'list': 'list', 'out': 'out', 'top': 'top', 'src': 'src'}

                def step(cmd):
                    open(os.path.join(proj, 'trace'), 'w').close()
                    r = subprocess.run(cmd, cwd=proj, env=env, capture_output=True, text=True, timeout=120)
                    return r.returncode, sorted(open(os.path.join(proj, 'trace')).read().split())
                rc, ran = step(['redo', '--no-log', '-j%d' % j, names_['top']])
                if rc != 0:
                    continue
                hist = 'top -> out -> list (redo-stamp, %s); redo top' % ({'file': 'writes its output', 'pipe': 'pipes into redo-stamp, no output file', 'sub': 'writes its output; default*.do rules at the top, targets in sub/'}[kind])
                time.sleep(0.02)
                os.utime(os.path.join(proj, names_['src']), None)
                open(os.path.join(proj, names_['src']), 'w').write('v1\n')
                rc, ran = step(['redo-ifchange', names_['top']])
                if rc != 0 or ran != [names_['list']]:
                    fails.append(dict(input=hist + '; rewrite src with the same content; redo-ifchange top', observed='exit %d, scripts run: %s' % (rc, ran), label='unlocked.second_phase_is_target',
                                      clause='a checksummed target rebuilt with an unchanged checksum does not rebuild its dependents'))
                open(os.path.join(proj, names_['src']), 'w').write('v2 longer\n')
                rc, ran = step(['redo-ifchange', names_['top']])
                ood = sorted(subprocess.run(['redo-ood'], cwd=proj, env=env, capture_output=True, text=True, timeout=60).stdout.split())
                top = open(os.path.join(proj, names_['top'])).read() if os.path.exists(os.path.join(proj, names_['top'])) else None
                if rc != 0 or ran != sorted([names_['list'], names_['out'], names_['top']]) or ood or top != 'top:v2 longer\n':
                    fails.append(dict(input=hist + '; change src; redo-ifchange top', observed='exit %d, scripts run: %s, redo-ood: %s, top = %r' % (rc, ran, ood, top), label='unlocked.second_phase_is_target',
                                      clause='when the checksum changes every dependent is rebuilt before the same command returns success'))
                # (3) the same decision taken one level down: `redo <top>` forces top's script, whose own redo-ifchange of `out` --
                # started by a script, with REDO_TARGET / REDO_PWD set -- meets the uncertain checksummed dependency
                open(os.path.join(proj, names_['src']), 'w').write('v3 longer still\n')
                rc, ran = step(['redo', '--no-log', names_['top']])
                top = open(os.path.join(proj, names_['top'])).read() if os.path.exists(os.path.join(proj, names_['top'])) else None
                if rc != 0 or ran != sorted([names_['list'], names_['out'], names_['top']]) or top != 'top:v3 longer still\n':
                    fails.append(dict(input=hist + '; change src; redo-ifchange top; change src; redo top', observed='exit %d, scripts run: %s, top = %r' % (rc, ran, top), label='unlocked_argv.target_then_the_uncertain_dependencies',
                                      clause='the out-of-band decision taken by a redo-ifchange that a script started builds the same files'))
    finally:
        shutil.rmtree(work, ignore_errors=True)
    return fails, n


def _corpus_failures(prop):
    """Bounded: the demonstration scripts of the seeded changes kept for this property (seeded/<id>/demo/demo.sh, listed in
    seeded/corpus.json with the clause each one checks).  Each is a concrete history with the real binaries that exits 0
    when the property's clause holds on it; all of them pass on the unchanged tree (measured twice when the corpus was
    built).  A script that exits non-zero is run a second time; only a repeated failure counts.  -> (failures, n) or None"""
    cfile = os.path.join(ROOT, 'seeded', 'corpus.json')
    if not os.path.exists(cfile):
        return None
    bindir = build_redo_bin()
    if not bindir:
        return None
    exe = os.path.join(BUILD_DIR, 'redo-target', 'debug', 'redo')
    env = {k: v for k, v in os.environ.items() if not k.startswith('REDO') and k != 'MAKEFLAGS'}
    env['REDO_BIN'] = exe
    env['TMPDIR'] = '/var/tmp'
    fails, n = [], 0
    for ent in json.load(open(cfile)):
        if prop not in ent['props']:
            continue
        d = os.path.join(ROOT, 'seeded', ent['id'], 'demo')
        n += 1
        bad = 0
        for attempt in (1, 2):
            try:
                r = subprocess.run(['sh', './demo.sh'], cwd=d, env=env, capture_output=True, text=True, timeout=300)
                rc, tail = r.returncode, (r.stdout + r.stderr).strip()[-400:]
            except subprocess.TimeoutExpired:
                rc, tail = 124, 'timed out after 300 s'
            if rc == 0:
                break
            bad += 1
        if bad == 2:
            fails.append(dict(input='seeded/%s/demo/demo.sh (the history is described in its README.md)' % ent['id'], observed='exit %d twice: ...%s' % (rc, tail),
                              clause=ent['clause']))
    return fails, n

# ---------------------------------------------------------------- interface used by run.py
def search(prop, violations, tier, seed):
    """attach a concrete failing input to a reported violation, if a probe covers its function"""
    for v in violations:
        oid = v['oid']
        if oid.startswith('tokens/do_force_return_tokens/'):
            f = _tokens_exit_failures()
            if f:
                label = oid.split('/')[-1]
                hits = f.get(label) or [x for xs in f.values() for x in xs]
                if hits:
                    return dict(probe='redo-replay tokens-exit', for_obligation=oid, failing_inputs=hits[:6])
        if oid.startswith('tokens/') and oid.split('/')[1] in STEP_FN.values():
            f = _tokens_step_failures()
            if f:
                fn_, label = oid.split('/')[1], oid.split('/')[-1]
                hits = f.get((fn_, label)) or [x for (g, _), xs in f.items() if g == fn_ for x in xs]
                if hits:
                    return dict(probe='redo-replay tokens-steps', for_obligation=oid, failing_inputs=hits[:6])
        for unit, probe_, fn_, where in PROBED:
            if oid.startswith('%s/%s/' % (unit, fn_)):
                f = _path_failures(probe_)
                if f:
                    f.pop('__summary__', None)
                    label = oid.split('/')[-1]
                    hits = f.get(label) or [x for xs in f.values() for x in xs]
                    if hits:
                        return dict(probe='redo-replay ' + probe_, for_obligation=oid, failing_inputs=hits[:6])
    return None


def known_inputs(prop, oid):
    """failing inputs of a known-finding obligation as observed now (None: no probe for it)"""
    if oid.startswith('tokens/do_force_return_tokens/'):
        f = _tokens_exit_failures()
        if f is None:
            return None
        return [x['input'] for x in f.get(oid.split('/')[-1], [])]
    return None


def conformance(prop, unit_names, pins_changed, labels_props):
    """concrete violations for units Verus could not decide.  -> list of failure dicts like run.analyse's"""
    out = []
    if 'tokens' in unit_names:
        f = _tokens_exit_failures()
        for label, hits in (f or {}).items():
            props = labels_props.get(('tokens', label), ['C08'])
            if hits and prop in props:
                out.append(dict(oid='tokens/do_force_return_tokens/%s' % label, msg='contract clause fails on the real code for a concrete input (probe tokens-exit)',
                                where=REPO + '/src/jobserver.rs:do_force_return_tokens', site=None, text=hits[0]['clause'],
                                rendered=json.dumps(hits[:6], indent=1), inputs=[h['input'] for h in hits], fn='do_force_return_tokens', label=label, props=props))
    if 'tokens' in unit_names:
        f = _tokens_step_failures() or {}
        for (fn_, label), hits in f.items():
            props = labels_props.get(('tokens', label), ['C08', 'C09'])
            if hits and prop in props:
                out.append(dict(oid='tokens/%s/%s' % (fn_, label), msg='contract clause fails on the real code for a concrete input (probe tokens-steps)',
                                where=REPO + '/src/jobserver.rs:' + fn_, site=None, text=hits[0]['clause'], rendered=json.dumps(hits[:6], indent=1),
                                inputs=[h['input'] for h in hits], fn=fn_, label=label, props=props))
    if ('sched' in unit_names or 'locks' in unit_names) and prop in ('C06', 'C07', 'C01', 'C02', 'C11', 'C16'):
        r = _contend_failures()
        for h in (r[0] if r else []):
            if (h['prop'] == 'C06') == (prop in ('C06', 'C07')):
                out.append(dict(oid='sched/run_body/' + ('run.start_holds_kernel_lock' if h['prop'] == 'C06' else 'run.record_read_under_lock'),
                                msg='clause fails on the real binaries for a concrete history (bounded probe contend)', where=REPO + '/src/builder.rs:run', site=None,
                                text=h['clause'], rendered=json.dumps(h, indent=1), inputs=[h['input']], fn='run_body',
                                label='run.start_holds_kernel_lock' if h['prop'] == 'C06' else 'run.record_read_under_lock', props=[prop]))
    if ('gluebins' in unit_names or 'dirty' in unit_names or 'record' in unit_names) and prop in ('C03', 'C01', 'C02', 'C15'):
        r = _stamp_forward_failures()
        if r and r[0]:
            hits = r[0]
            out.append(dict(oid='gluebins/unlocked_run_phases/unlocked.second_phase_is_target', msg='clause fails on the real binaries for a concrete history (bounded probe stamp-forward, %d histories)' % r[1],
                            where=REPO + '/src/bin/redo/unlocked.rs:run', site=None, text=hits[0]['clause'], rendered=json.dumps(hits[:6], indent=1), inputs=[h['input'] for h in hits],
                            fn='unlocked_run_phases', label='unlocked.second_phase_is_target', props=[prop]))
    if 'gluebins' in unit_names and prop in ('C03', 'C01'):
        r = _stamp_pipe_failures()
        if r and r[0]:
            hits = r[0]
            out.append(dict(oid='gluebins/stamp_digest/stamp.digest_covers_the_whole_input', msg='clause fails on the real binaries for a concrete input (bounded probe stamp-pipe, %d inputs)' % r[1],
                            where=REPO + '/src/bin/redo/stamp.rs:run', site=None, text=hits[0]['clause'], rendered=json.dumps(hits[:6], indent=1),
                            inputs=[h['input'] for h in hits], fn='stamp_digest', label='stamp.digest_covers_the_whole_input', props=[prop]))
    if ('tokens' in unit_names or 'gluebins' in unit_names) and prop == 'C08':
        r = _nested_j_failures()
        if r and r[0]:
            hits = r[0]
            out.append(dict(oid='tokens/setup_token_fds/setup.explicit_j_means_own_jobserver', msg='clause fails on the real binaries for a concrete history (bounded probe nested-j, %d histories)' % r[1],
                            where=REPO + '/src/jobserver.rs:setup', site=None, text=hits[0]['clause'], rendered=json.dumps(hits[:6], indent=1), inputs=[h['input'] for h in hits],
                            fn='setup_token_fds', label='setup.explicit_j_means_own_jobserver', props=['C08']))
    if 'tokens' in unit_names and prop == 'C08':
        r = _cheatpipe_failures()
        if r and r[0]:
            hits = r[0]
            out.append(dict(oid='tokens/setup_cheat_fds/setup.own_jobserver_owns_its_debts', msg='clause fails on the real binaries for a concrete history (bounded probe cheatpipe, %d histories)' % r[1],
                            where=REPO + '/src/jobserver.rs:setup', site=None, text=hits[0]['clause'], rendered=json.dumps(hits[:6], indent=1),
                            inputs=[h['input'] for h in hits], fn='setup_cheat_fds', label='setup.own_jobserver_owns_its_debts', props=['C08']))
    if 'tokens' in unit_names and prop == 'C08':
        r = _conserve_failures()
        if r and r[0]:
            hits = r[0]
            out.append(dict(oid='tokens/do_force_return_tokens/exit.one_token', msg='clause fails on the real binaries for a concrete history (bounded probe conserve, %d histories)' % r[1],
                            where=REPO + '/src/jobserver.rs:do_force_return_tokens', site=None, text=hits[0]['clause'], rendered=json.dumps(hits[:6], indent=1),
                            inputs=[h['input'] for h in hits], fn='do_force_return_tokens', label='exit.one_token', props=['C08']))
    for unit, probe_, fn_, where in PROBED:
        if unit in unit_names:
            f = _path_failures(probe_) or {}
            f.pop('__summary__', None)
            for label, hits in f.items():
                props = labels_props.get((unit, label), ['C18'] if unit == 'logs' else ['C15'])
                if hits and prop in props:
                    out.append(dict(oid='%s/%s/%s' % (unit, fn_, label), msg='contract clause fails on the real code for a concrete input (probe %s)' % probe_,
                                    where=REPO + where, site=None, text=hits[0]['clause'], rendered=json.dumps(hits[:6], indent=1),
                                    inputs=[h['input'] for h in hits], fn=fn_, label=label, props=props))
    if ('queries' in unit_names or 'dbmode' in unit_names or 'txn' in unit_names or any(p.endswith('::new') for p in pins_changed)) and prop == 'C17':
        r = _ood_failures()
        by = {}
        for h in (r[0] if r else []):
            by.setdefault(h.get('label', 'ood.lists_every_definitely_stale_target'), []).append(h)
        for label, hits in by.items():
            cmd = label.split('.')[0]
            out.append(dict(oid='queries/%s_list/%s' % (cmd, label), msg='clause fails on the real binaries for a concrete history (bounded probe ood, %d histories)' % r[1],
                            where=REPO + '/src/bin/redo/%s.rs:run' % cmd, site=None, text=hits[0]['clause'], rendered=json.dumps(hits[:6], indent=1),
                            inputs=[h['input'] for h in hits], fn=cmd + '_list', label=label, props=['C17']))
    if prop in ('C15', 'C07', 'C06') and ('relpath' in unit_names or 'records' in unit_names or any(p.endswith('::from_name') or p.endswith('::realdirpath') for p in pins_changed)):
        r = _names_failures()
        if r and r[0]:
            hits = r[0]
            out.append(dict(oid='trusted/File::from_name/one_record_one_name_per_file', msg='clause fails on the real binaries for a concrete history (bounded probe names, %d histories)' % r[1],
                            where=REPO + '/src/state.rs:File::from_name', site=None, text=hits[0]['clause'], rendered=json.dumps(hits[:6], indent=1),
                            inputs=[h['input'] for h in hits], fn='from_name', label='one_record_one_name_per_file', props=[prop]))
    if 'sched' in unit_names and prop in ('C09', 'C07', 'C15'):
        r = _same_target_twice_failures()
        by = {}
        for h in (r[0] if r else []):
            if (h['prop'] == 'C09') == (prop == 'C09'):
                by.setdefault(h['label'], []).append(h)
        for label, hits in by.items():
            out.append(dict(oid='sched/run_body/' + label, msg='clause fails on the real binaries for a concrete history (bounded probe same-target-twice, %d histories)' % r[1],
                            where=REPO + '/src/builder.rs:run', site=None, text=hits[0]['clause'], rendered=json.dumps(hits[:6], indent=1), inputs=[h['input'] for h in hits],
                            fn='run_body', label=label, props=[prop]))
    if prop == 'C12' and ('gluebins' in unit_names or 'locks' in unit_names or 'dirty' in unit_names):
        r = _cycle_shapes_failures()
        if r and r[0]:
            hits = r[0]
            out.append(dict(oid='locks/check/cycles.check_detects_ancestor', msg='clause fails on the real binaries for a concrete history (bounded probe cycle-shapes, %d histories)' % r[1],
                            where=REPO + '/src/bin/redo/ifchange.rs:run', site=None, text=hits[0]['clause'], rendered=json.dumps(hits[:6], indent=1), inputs=[h['input'] for h in hits],
                            fn='check', label='cycles.check_detects_ancestor', props=['C12']))
    if 'gluebins' in unit_names and prop == 'C14':
        r = _ifcreate_args_failures()
        if r and r[0]:
            hits = r[0]
            out.append(dict(oid='gluebins/ifcreate_record/ifcreate.existing_path_is_error', msg='clause fails on the real binaries for a concrete input (bounded probe ifcreate-args, %d inputs)' % r[1],
                            where=REPO + '/src/bin/redo/ifcreate.rs:run', site=None, text=hits[0]['clause'], rendered=json.dumps(hits[:6], indent=1), inputs=[h['input'] for h in hits],
                            fn='ifcreate_record', label='ifcreate.existing_path_is_error', props=['C14']))
    if 'dofiles' in unit_names and prop in ('C04', 'C07', 'C13'):
        r = _temp_collision_failures()
        if r and r[0]:
            hits = r[0]
            out.append(dict(oid='dofiles/start_self_arguments/args.temp_beside_target', msg='clause fails on the real binaries for a concrete input (bounded probe temp-collision, %d pairs)' % r[1],
                            where=REPO + '/src/builder.rs:start_self', site=None, text=hits[0]['clause'], rendered=json.dumps(hits[:6], indent=1), inputs=[h['input'] for h in hits],
                            fn='start_self_arguments', label='args.temp_beside_target', props=[prop]))
    if prop == 'C16' and ('dbmode' in unit_names or 'txn' in unit_names or 'records' in unit_names or 'queries' in unit_names or 'sched' in unit_names):
        r = _concurrent_state_failures()
        if r and r[0]:
            hits = r[0]
            out.append(dict(oid='dbmode/process_state_init_tx/init.transaction_finished', msg='clause fails on the real binaries for a concrete history (bounded probe concurrent-state, %d histories)' % r[1],
                            where=REPO + '/src/state.rs:ProcessState::init', site=None, text=hits[0]['clause'], rendered=json.dumps(hits[:6], indent=1), inputs=[h['input'] for h in hits],
                            fn='process_state_init_tx', label='init.transaction_finished', props=['C16']))
    if ('logs' in unit_names and prop in ('C10', 'C09', 'C18')) or ('gluebins' in unit_names and prop in ('C06', 'C09', 'C10')):
        r = _lost_reader_failures()
        if r and r[0]:
            hits = r[0]
            out.append(dict(oid='logs/rawlog_write_line/rawlog.a_failed_write_is_not_fatal', msg='clause fails on the real binaries for a concrete history (bounded probe lost-reader, %d histories)' % r[1],
                            where=REPO + '/src/logs.rs:RawLog::write_line', site=None, text=hits[0]['clause'], rendered=json.dumps(hits[:6], indent=1), inputs=[h['input'] for h in hits],
                            fn='rawlog_write_line', label='rawlog.a_failed_write_is_not_fatal', props=[prop]))
    if 'dofiles' in unit_names and prop == 'C13':
        r = _whichdo_failures()
        by = {}
        for h in (r[0] if r else []):
            by.setdefault(h['label'], []).append(h)
        for label, hits in by.items():
            fn_ = 'whichdo_list' if label.startswith('whichdo') else 'start_self_arguments'
            out.append(dict(oid='dofiles/%s/%s' % (fn_, label), msg='clause fails on the real binaries for a concrete input (bounded probe whichdo, %d inputs)' % r[1],
                            where=REPO + '/src/paths.rs', site=None, text=hits[0]['clause'], rendered=json.dumps(hits[:6], indent=1, ensure_ascii=False), inputs=[h['input'] for h in hits],
                            fn=fn_, label=label, props=['C13']))
    if 'dofiles' in unit_names and prop in ('C05', 'C13'):
        r = _shell_line_failures()
        by = {}
        for h in (r[0] if r else []):
            if prop in h['props']:
                by.setdefault(h['label'], []).append(h)
        for label, hits in by.items():
            out.append(dict(oid='dofiles/start_self_shell_line/' + label, msg='clause fails on the real binaries for a concrete history (bounded probe shell-line, %d histories)' % r[1],
                            where=REPO + '/src/builder.rs:start_self', site=None, text=hits[0]['clause'], rendered=json.dumps(hits[:6], indent=1), inputs=[h['input'] for h in hits],
                            fn='start_self_shell_line', label=label, props=hits[0]['props']))
    if not out and unit_names:
        r = _corpus_failures(prop)
        for h in (r[0] if r else []):
            out.append(dict(oid='corpus/%s/%s' % (h['input'].split('/')[1], 'history'), msg='a recorded history of this property fails on the real binaries (bounded probe corpus, %d histories)' % r[1],
                            where=REPO, site=None, text=h['clause'], rendered=json.dumps(h, indent=1), inputs=[h['input']], fn='corpus', label='history', props=[prop]))
    if any(p.endswith('::deps') or p.endswith('::zap_deps1') or p.endswith('::zap_deps2') or p.endswith('::add_dep') for p in pins_changed) \
            or ('gluebins' in unit_names and prop in ('C02', 'C14', 'C10', 'C01')):
        f = _deps_failures()
        if f:
            out.append(dict(oid='trusted/File::deps/deps_reports_every_recorded_edge', msg='trusted specification of a hash-pinned body fails on the real code for a concrete input (probe deps)',
                            where=REPO + '/src/state.rs:File::deps', site=None, text=f[0]['clause'], rendered=json.dumps(f[:4], indent=1),
                            inputs=[x['input'] for x in f], fn='deps', label='deps_reports_every_recorded_edge', props=[prop]))
    return out


BOUNDED = {'C15': ('normpath', 'relpath'), 'C12': ('locks',), 'C18': ('logs',)}


def bounded(prop, unit_names, labels_props):
    """bounded stand-ins run next to the proof (labelled bounded in the evidence): -> (failures, notes)"""
    out, notes = [], []
    if prop == 'C17' and 'queries' in unit_names and os.environ.get('VERIF_TIER_EFFECTIVE') == 'thorough':
        r = _ood_failures()
        if r is None:
            notes.append('bounded probe ood: could not be built or run (nothing concluded from it)')
        else:
            notes.append('bounded probe ood: %d histories on the real binaries (3-target chains, every name order, every deletion subset / a source edit), %d failure(s) [bounded, not counted as proved]' % (r[1], len(r[0])))
            by = {}
            for h in r[0]:
                by.setdefault(h.get('label', 'ood.lists_every_definitely_stale_target'), []).append(h)
            for label, hits in by.items():
                cmd = label.split('.')[0]
                out.append(dict(oid='queries/%s_list/%s' % (cmd, label), msg='clause fails on the real binaries for a concrete history (bounded probe ood)',
                                where=REPO + '/src/bin/redo/%s.rs:run' % cmd, site=None, text=hits[0]['clause'], rendered=json.dumps(hits[:6], indent=1),
                                inputs=[h['input'] for h in hits], fn=cmd + '_list', label=label, props=['C17']))
    if os.environ.get('VERIF_TIER_EFFECTIVE') == 'thorough':
        # every targeted probe on the real binaries that speaks about this property, then the recorded histories
        extra = []
        if prop in ('C06', 'C07', 'C01', 'C02', 'C11', 'C16'):
            extra.append(('contend', _contend_failures, 'sched/run_body/run.start_holds_kernel_lock' if prop in ('C06', 'C07') else 'sched/run_body/run.record_read_under_lock',
                          lambda h: (h.get('prop') == 'C06') == (prop in ('C06', 'C07'))))
        if prop == 'C08':
            extra.append(('cheatpipe', _cheatpipe_failures, 'tokens/setup_cheat_fds/setup.own_jobserver_owns_its_debts', lambda h: True))
            extra.append(('nested-j', _nested_j_failures, 'tokens/setup_token_fds/setup.explicit_j_means_own_jobserver', lambda h: True))
            extra.append(('conserve', _conserve_failures, 'tokens/do_force_return_tokens/exit.one_token', lambda h: True))
        if prop == 'C16':
            extra.append(('concurrent-state', _concurrent_state_failures, 'dbmode/process_state_init_tx/init.transaction_finished', lambda h: True))
        if prop == 'C14':
            extra.append(('ifcreate-args', _ifcreate_args_failures, 'gluebins/ifcreate_record/ifcreate.existing_path_is_error', lambda h: True))
        if prop in ('C04', 'C07'):
            extra.append(('temp-collision', _temp_collision_failures, 'dofiles/start_self_arguments/args.temp_beside_target', lambda h: True))
        if prop in ('C10', 'C09', 'C18', 'C06'):
            extra.append(('lost-reader', _lost_reader_failures, 'logs/rawlog_write_line/rawlog.a_failed_write_is_not_fatal', lambda h: True))
        if prop == 'C12':
            extra.append(('cycle-shapes', _cycle_shapes_failures, 'locks/check/cycles.check_detects_ancestor', lambda h: True))
        if prop in ('C09', 'C07', 'C15'):
            extra.append(('same-target-twice', _same_target_twice_failures, 'sched/run_body/run.first_pass_dedupes_by_id' if prop != 'C09' else 'sched/run_body/lock_new.registry_free', lambda h: (h['prop'] == 'C09') == (prop == 'C09')))
        if prop in ('C05', 'C13'):
            extra.append(('shell-line', _shell_line_failures, 'dofiles/start_self_shell_line/shell.sh_stops_at_the_first_failing_command', lambda h: prop in h['props']))
        if prop in ('C03', 'C01', 'C02', 'C15'):
            extra.append(('stamp-forward', _stamp_forward_failures, 'gluebins/unlocked_run_phases/unlocked.second_phase_is_target', lambda h: True))
        if prop in ('C03', 'C01'):
            extra.append(('stamp-pipe', _stamp_pipe_failures, 'gluebins/stamp_digest/stamp.digest_covers_the_whole_input', lambda h: True))
        extra.append(('corpus', lambda: _corpus_failures(prop), None, lambda h: True))
        for pname, fnc, oid, keep in extra:
            try:
                r = fnc()
            except Exception as e:
                r = None
                notes.append('bounded probe %s: failed to run (%s)' % (pname, e))
            if r is None:
                notes.append('bounded probe %s: could not be built or run (nothing concluded from it)' % pname)
                continue
            hits = [h for h in r[0] if keep(h)]
            notes.append('bounded probe %s: %d histories on the real binaries, %d failure(s) [bounded, not counted as proved]' % (pname, r[1], len(hits)))
            for h in hits:
                o = oid or 'corpus/%s/history' % h['input'].split('/')[1]
                out.append(dict(oid=o, msg='clause fails on the real binaries for a concrete history (bounded probe %s)' % pname, where=REPO, site=None, text=h['clause'],
                                rendered=json.dumps(h, indent=1), inputs=[h['input']], fn=o.split('/')[1], label=o.split('/')[2], props=[prop]))
    if prop in ('C15', 'C07', 'C06') and os.environ.get('VERIF_TIER_EFFECTIVE') == 'thorough':
        r = _names_failures()
        if r is None:
            notes.append('bounded probe names: could not be built or run (nothing concluded from it)')
        else:
            notes.append('bounded probe names: %d histories on the real binaries (9 spellings of 3 files through symlinked directories, every ordered pair), %d failure(s) [bounded, not counted as proved]' % (r[1], len(r[0])))
            if r[0]:
                hits = r[0]
                out.append(dict(oid='trusted/File::from_name/one_record_one_name_per_file', msg='clause fails on the real binaries for a concrete history (bounded probe names)',
                                where=REPO + '/src/state.rs:File::from_name', site=None, text=hits[0]['clause'], rendered=json.dumps(hits[:6], indent=1),
                                inputs=[h['input'] for h in hits], fn='from_name', label='one_record_one_name_per_file', props=[prop]))
    if prop == 'C13' and 'dofiles' in unit_names:
        # the stated stand-in for names outside the proof's ASCII precondition (DESIGN section 12): every run
        try:
            r = _whichdo_failures()
        except Exception as e:
            r = None
            notes.append('bounded probe whichdo: failed to run (%s)' % e)
        if r is None:
            notes.append('bounded probe whichdo: could not be built or run (nothing concluded from it)')
        else:
            notes.append('bounded probe whichdo: %d inputs on the real binaries (17 names incl. non-ASCII ones and names that begin with `default` x 3 directories: candidate list of redo-whichdo and $1 $2 against an independent reference), %d failure(s) [bounded, not counted as proved]' % (r[1], len(r[0])))
            by = {}
            for h in r[0]:
                by.setdefault(h['label'], []).append(h)
            for label, hits in by.items():
                fn_ = 'whichdo_list' if label.startswith('whichdo') else 'start_self_arguments'
                out.append(dict(oid='dofiles/%s/%s' % (fn_, label), msg='clause fails on the real binaries for a concrete input (bounded probe whichdo)',
                                where=REPO + '/src/paths.rs', site=None, text=hits[0]['clause'], rendered=json.dumps(hits[:6], indent=1, ensure_ascii=False), inputs=[h['input'] for h in hits],
                                fn=fn_, label=label, props=['C13']))
    for unit, probe_, fn_, where in PROBED:
        if unit not in BOUNDED.get(prop, ()) or unit not in unit_names:
            continue
        f = _path_failures(probe_)
        if f is None:
            notes.append('bounded probe %s: could not be built or run (nothing concluded from it)' % probe_)
            continue
        summ = f.pop('__summary__', {})
        notes.append('bounded probe %s: %s inputs checked against an independent reference, %s failure(s) [bounded, not counted as proved]'
                     % (probe_, summ.get('checked', '?'), summ.get('failures', '?')))
        for label, hits in f.items():
            props = labels_props.get((unit, label), [prop])
            if hits and prop in props:
                out.append(dict(oid='%s/%s/%s' % (unit, fn_, label), msg='contract clause fails on the real code for a concrete input (bounded probe %s)' % probe_,
                                where=REPO + where, site=None, text=hits[0]['clause'], rendered=json.dumps(hits[:6], indent=1),
                                inputs=[h['input'] for h in hits], fn=fn_, label=label, props=props))
    return out, notes


def replay(prop, path):
    d = json.load(open(path))
    print(json.dumps(d, indent=1)[:8000])
    from .run import check_property
    return check_property(prop, 'quick', 0)
