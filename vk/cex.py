"""Concrete counterexample search and replay (DESIGN 6.3).

Verus yields no model.  `search` tries, per failed obligation, the searchers
registered for its unit (Kani twin on the extracted integer code, clause-directed
enumeration, scenario replay with the real binaries).  Returns a dict describing the
failing input, or None (the VIOLATION line then ends `no-failing-input-found`).
"""
import json
import os
import sys

SEARCHERS = {}


def register(prefix):
    def deco(fn):
        SEARCHERS[prefix] = fn
        return fn
    return deco


def search(prop, violations, tier, seed):
    budget = 20 if tier == 'quick' else 600
    for v in violations:
        for prefix, fn in SEARCHERS.items():
            if v['oid'].startswith(prefix):
                try:
                    r = fn(prop, v, budget, seed)
                except Exception as e:  # a broken searcher must never turn into an alarm or hide one
                    r = None
                    sys.stderr.write('cex searcher %s failed: %s\n' % (prefix, e))
                if r:
                    r['for_obligation'] = v['oid']
                    return r
    return None


def replay(prop, path):
    d = json.load(open(path))
    print(json.dumps(d, indent=1)[:6000])
    from .run import check_property
    return check_property(prop, 'quick', 0)


try:
    from . import cex_tokens  # noqa: F401
except Exception:
    pass
