"""python3 -m vk.teeth UNIT: run every //@mutant of a unit, report killed / survived."""
import sys, os, json
from concurrent.futures import ThreadPoolExecutor
from .assemble import assemble, ROOT
from .rscan import ExtractError
from .run import run_verus, analyse, collect_lemma_tags, Undecided, BUILD, tags_of
name = sys.argv[1]
tmpl = os.path.join(ROOT, 'units', name + '.vrs')
u0 = assemble(tmpl, os.path.join(BUILD, name + '.rs'))
collect_lemma_tags(u0)
# obligations that already fail on the unmutated unit (recorded findings, the canary) do not count as kills
_js, _di, _w, _c, _ = run_verus(name + '_base', os.path.join(BUILD, name + '.rs'), threads=8, log_air=False)
BASE = set((x['label'] or x['msg']) for x in analyse(u0, _js, _di).failures)
def run(m):
    out = os.path.join(BUILD, '%s_mut_%s.rs' % (name, m['name']))
    try:
        u = assemble(tmpl, out, mutation=(m['fn'], m['rx'], m['repl']))
    except ExtractError as e:
        return (m['name'], 'not-applicable: %s' % e)
    collect_lemma_tags(u)
    try:
        js, di, w, c, _ = run_verus('%s_mut_%s' % (name, m['name']), out, threads=2, log_air=False)
    except Undecided as e:
        return (m['name'], 'undecided: %s' % e)
    r = analyse(u, js, di)
    if r.hard:
        return (m['name'], 'REJECTED: ' + r.hard[0][:400])
    killed = sorted(set((x['label'] or x['msg']) for x in r.failures if x['fn'] != 'canary__') - BASE)
    os.remove(out)
    return (m['name'], ('killed by ' + ', '.join(killed[:5])) if killed else 'SURVIVED')
with ThreadPoolExecutor(max_workers=8) as ex:
    for n, r in ex.map(run, u0.mutants):
        print('%-28s %s' % (n, r))
