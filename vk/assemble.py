"""Assemble one Verus file per unit from a template (units/<unit>.vrs) and the
current text of /repo.

Template directives (lines starting with //@):

  //@unit NAME
  //@source ALIAS = relative/path.rs
  //@include relative/file            (pasted verbatim, relative to /verif)
  //@grw RULE /regex/repl/            global rewrite applied to every extracted text
  //@fn ALIAS :: CONTAINER :: NAME :: TAGS [:: as NEWNAME]
      //@rw RULE /regex/repl/ [min=N] [max=N]   rewrite on this function only
      //@sig /regex/repl/             rewrite restricted to the signature (rule R-sig)
      //@contract                     following lines (until next //@) go between signature and body
      //@loop K                       following lines go between header and body of K-th loop
      //@hint before|after /regex/    following lines are inserted before/after the first body line matching
      //@noret                        do not name the return value
  //@endfn
  //@region ALIAS :: CONTAINER :: FN :: TAGS :: /anchor regex/
      //@header                       following lines: the synthetic fn signature (up to, not including, the body)
      //@rw / //@contract / //@loop / //@hint as above (loops counted inside the region)
  //@endregion
  //@item ALIAS :: struct|enum :: NAME
      //@rw ...
  //@enditem
      //@slice a|b|c                  keep only the statements that mention one of these variables (vk/slicer.py, rule R-slice)
  //@pin ALIAS :: CONTAINER :: NAME :: sha256prefix    trusted spec stands for this body; hash of normalised text
  //@mutant NAME :: FN :: PROPS :: /regex/repl/        teeth: applied to the raw extracted text of FN
  //@glue ID :: ALIAS :: CONTAINER :: FN :: /first-line regex/ :: LINES :: sha256prefix

Everything else is copied through.  A contract clause may end with a comment
`// [Cxx Cyy] label` naming the obligation.
"""
import hashlib
import json
import os
import re

from .rscan import Source, ExtractError, loops_in, first_brace_at_depth0, match_close, tokenize, norm_ws

REPO = os.environ.get('VERIF_REPO', '/repo')
ROOT = os.path.dirname(os.path.dirname(os.path.abspath(__file__)))


def parse_subst(s):
    """'/a/b/' with any delimiter char -> (regex, repl)"""
    s = s.strip()
    d = s[0]
    parts = []
    cur = ''
    i = 1
    while i < len(s):
        if s[i] == '\\' and i + 1 < len(s) and s[i + 1] == d:
            cur += d
            i += 2
            continue
        if s[i] == d:
            parts.append(cur)
            cur = ''
            i += 1
            continue
        cur += s[i]
        i += 1
    rest = cur.strip()
    if len(parts) != 2:
        raise ExtractError('bad substitution %r' % s)
    opts = dict(kv.split('=') for kv in rest.split()) if rest else {}
    rx = parts[0]
    # a leading `^\s*` must not swallow the preceding newline (rules are line-count preserving)
    if rx.startswith('^\\s*'):
        rx = '^[ \\t]*' + rx[4:]
    elif rx.startswith('^(\\s*)'):
        rx = '^([ \\t]*)' + rx[6:]
    return rx, parts[1].replace('\\&', '&'), opts


def parse_regex(s):
    s = s.strip()
    d = s[0]
    j = s.rindex(d)
    return s[1:j], s[j + 1:].strip()


class Piece:
    """A chunk of output text with its origin."""

    def __init__(self, text, kind, file=None, line=None):
        self.text, self.kind, self.file, self.line = text, kind, file, line


class Func:
    def __init__(self):
        self.alias = self.container = self.name = self.outname = None
        self.tags = []
        self.rws = []
        self.sig = []
        self.contract = []
        self.loops = {}
        self.hints = []
        self.noret = False
        self.region = None
        self.header = []
        self.prologue = []
        self.epilogue = []
        self.whole = False
        self.slice = None
        self.open_ok = False
        self.range_end = None
        self.kind = 'fn'
        self.tmpl_line = 0
        self.raw = None
        self.repo_file = None
        self.repo_line = None
        self.sha = None


class Unit:
    def __init__(self, name):
        self.name = name
        self.sources = {}
        self.funcs = []
        self.pins = []
        self.mutants = []
        self.glue = []
        self.rule_counts = {}
        self.rule_sites = {}
        self.rule_warnings = []
        self.out_lines = []      # text lines
        self.origin = []         # per line (kind, file, line)
        self.func_spans = {}     # outname -> (first_line, last_line) 1-based in output
        self.labels = {}         # output line -> (props, label)
        self.dropped = []
        self.lost = []
        self.errors = []

    def src(self, alias):
        if alias not in self.sources:
            raise ExtractError('unknown source alias %s' % alias)
        return self.sources[alias]


def _apply_rw(unit, f, text, rule, rx, repl, opts, where):
    try:
        if opts.get('addarg'):
            # the regex matches the head of a call up to and including its `(`; `repl` replaces the head, and the text
            # given as addarg=... is appended to the argument list in front of the matching `)` (after a trailing comma)
            extra = opts['addarg'].replace('~', ' ')
            out_t, pos, n = '', 0, 0
            for m in re.finditer(rx, text, flags=re.M):
                if m.start() < pos:
                    continue
                depth, k = 1, m.end()
                while k < len(text) and depth:
                    if text[k] in '([{':
                        depth += 1
                    elif text[k] in ')]}':
                        depth -= 1
                    k += 1
                if depth:
                    continue
                inner = text[m.end():k - 1]
                sep = '' if inner.rstrip().endswith(',') or not inner.strip() else ','
                out_t += text[pos:m.start()] + m.expand(repl) + inner.rstrip() + sep + ' ' + extra + inner[len(inner.rstrip()):] + ')'
                pos = k
                n += 1
            new = out_t + text[pos:]
        elif opts.get('pad'):
            # multi-line match replaced by a shorter text: pad with newlines so that the line count is preserved
            def _padded(m):
                out = m.expand(repl)
                return out + '\n' * max(0, m.group(0).count('\n') - out.count('\n'))
            new, n = re.subn(rx, _padded, text, flags=re.M | re.S if opts.get('dotall') else re.M)
        else:
            new, n = re.subn(rx, repl, text, flags=re.M | re.S if opts.get('dotall') else re.M)
    except re.error as e:
        raise ExtractError('bad regex in rule %s: %s' % (rule, e))
    if new.count('\n') != text.count('\n'):
        raise ExtractError('rule %s changed the line count in %s' % (rule, where))
    mn = int(opts.get('min', 0))
    mx = int(opts.get('max', 10 ** 9))
    if n > mx:
        raise ExtractError('rule %s: sanity condition failed in %s: %d applications, expected at most %s'
                           % (rule, where, n, opts.get('max', 'inf')))
    if n < mn:
        # fewer applications than when the unit was written: the source changed shape.  Not fatal: either the
        # construct is gone (then the contracts decide) or Verus will reject the unrewritten text (UNDECIDED).
        unit.rule_warnings.append('rule %s applied %d time(s) in %s, expected at least %d' % (rule, n, where, mn))
    if n:
        unit.rule_counts[rule] = unit.rule_counts.get(rule, 0) + n
        unit.rule_sites.setdefault(rule, {})
        unit.rule_sites[rule][where] = unit.rule_sites[rule].get(where, 0) + n
    return new


def _name_return(text, toks, fn_idx, body_open):
    """rewrite `-> T` into `-> (ret: T)` in the signature"""
    depth = 0
    for j in range(fn_idx, body_open):
        t = toks[j]
        if t.kind == 'punct' and t.text in '([':
            depth += 1
        elif t.kind == 'punct' and t.text in ')]':
            depth -= 1
        elif depth == 0 and t.text == '->':
            # type runs to `where` at depth 0 or body_open
            k = j + 1
            d = 0
            end = toks[body_open].start
            while k < body_open:
                tt = toks[k]
                if tt.kind == 'punct' and tt.text in '([':
                    d += 1
                elif tt.kind == 'punct' and tt.text in ')]':
                    d -= 1
                elif d == 0 and tt.kind == 'ident' and tt.text == 'where':
                    end = tt.start
                    break
                k += 1
            ty = text[t.end:end]
            if ty.strip().startswith('(ret:') or re.match(r'\s*\(\w+\s*:', ty):
                return text
            ws_tail = ty[len(ty.rstrip()):]
            return text[:t.end] + ' (ret: ' + ty.strip() + ')' + (ws_tail or ' ') + text[end:]
    return text



def find_inlinable(unit, name):
    """Look for `fn NAME(...)  { body }` in the unit's sources.  Returns dict(params=[names], has_self, body, file, line)
    when the body can be pasted at a call site without changing its meaning: no `return`, no `?`, no `await`, no macro
    that hides control flow other than the logging/assert ones.  Otherwise None."""
    for alias, S in unit.sources.items():
        toks = S.toks
        for i, t in enumerate(toks):
            if t.kind == 'ident' and t.text == 'fn' and i + 1 < len(toks) and toks[i + 1].text == name:
                # parameter list
                j = i + 2
                if toks[j].text == '<':
                    return None  # generic helper: not inlined
                if toks[j].text != '(':
                    continue
                jc = match_close(toks, j)
                ptext = S.text[toks[j].end:toks[jc].start]
                bo = first_brace_at_depth0(toks, jc + 1)
                if bo is None:
                    continue
                bc = match_close(toks, bo)
                body_toks = toks[bo + 1:bc]
                if any(bt.kind == 'ident' and bt.text in ('return', 'await', 'loop', 'while', 'for', 'break', 'continue') for bt in body_toks):
                    return None
                if any(bt.kind == 'punct' and bt.text == '?' for bt in body_toks):
                    return None
                params = []
                has_self = False
                depth = 0
                cur = ''
                for ch in ptext + ',':
                    if ch in '([<{':
                        depth += 1
                    elif ch in ')]>}':
                        depth -= 1
                    if ch == ',' and depth == 0:
                        c = cur.strip()
                        cur = ''
                        if not c:
                            continue
                        if re.match(r'^(&\s*(mut\s+)?|mut\s+)?self$', c):
                            has_self = True
                            continue
                        m = re.match(r'^(?:mut\s+)?(\w+)\s*:', c)
                        if not m:
                            return None
                        params.append(m.group(1))
                    else:
                        cur += ch
                # body text without comments, on one line
                # the body's own text, comments dropped, on one line (so that the unit's rewrite rules still apply to it)
                body = ''
                prev_end = toks[bo].end
                for bt in body_toks:
                    gap = S.text[prev_end:bt.start]
                    body += (' ' if gap.strip() or '\n' in gap or gap else '') + bt.text if gap else bt.text
                    prev_end = bt.end
                body = body.strip()
                return dict(params=params, has_self=has_self, body=body, file=S.path, line=S.line_of(t.start))
    return None


def apply_inline(text, name, info):
    """replace calls of NAME in `text` by the helper's body (a block expression), keeping the line count"""
    n_apps = 0
    def split_args(a):
        out, depth, cur = [], 0, ''
        for ch in a + ',':
            if ch in '([{':
                depth += 1
            elif ch in ')]}':
                depth -= 1
            if ch == ',' and depth == 0:
                if cur.strip():
                    out.append(cur.strip())
                cur = ''
            else:
                cur += ch
        return out
    if info['has_self']:
        rx = re.compile(r'(\b[A-Za-z_]\w*(?:\(\))?(?:\s*\.\s*[A-Za-z_]\w*(?:\(\))?)*)\s*\.\s*%s\s*\(' % re.escape(name))
    else:
        rx = re.compile(r'(?<![\w.])((?:\w+::)*)%s\s*\(' % re.escape(name))
    pos = 0
    out = ''
    while True:
        m = rx.search(text, pos)
        if not m:
            out += text[pos:]
            break
        # skip the definition itself (`fn NAME(`)
        if re.search(r'\bfn\s*$', text[max(0, m.start() - 4):m.start()] + ' ') and not info['has_self']:
            out += text[pos:m.end()]
            pos = m.end()
            continue
        # find the matching close paren
        depth, k = 1, m.end()
        while k < len(text) and depth:
            if text[k] in '([{':
                depth += 1
            elif text[k] in ')]}':
                depth -= 1
            k += 1
        args = split_args(text[m.end():k - 1])
        if len(args) != len(info['params']):
            raise ExtractError('inline %s: %d arguments for %d parameters' % (name, len(args), len(info['params'])))
        body = info['body']
        if info['has_self']:
            recv = ''.join(m.group(1).split())
            body = re.sub(r'\bself\b', recv, body)
        binds = ''.join('let %s = %s; ' % (pn, a) for pn, a in zip(info['params'], args))
        repl = '({ ' + binds + body + ' })'
        orig = text[m.start():k]
        repl += '\n' * orig.count('\n')
        out += text[pos:m.start()] + repl
        pos = k
        n_apps += 1
    return out, n_apps


def build_func(unit, f, grws):
    """Return list of Piece for this function."""
    src = unit.src(f.alias)
    S = src
    if f.kind == 'item':
        a, b = S.find_item(f.container, f.name)
        raw = S.text[a:b]
        f.repo_line = S.line_of(a)
        body_rel = None
    elif f.kind == 'fn':
        loc = S.find_fn(f.container, f.name)
        a, b = loc['start'], loc['end']
        raw = S.text[a:b]
        f.repo_line = S.line_of(a)
    else:  # region
        loc = S.find_fn(f.container, f.name)
        fa, fb = loc['start'], loc['end']
        m = re.compile(f.region, re.M).search(S.text, fa, fb)
        if not m:
            raise ExtractError('%s: region anchor %r not found in %s' % (S.path, f.region, f.name))
        m2 = re.compile(f.region, re.M).search(S.text, m.end(), fb)
        if m2:
            raise ExtractError('%s: region anchor %r ambiguous in %s' % (S.path, f.region, f.name))
        if f.range_end:
            # statement range: from the line of the start anchor to the line of the end anchor (inclusive),
            # or to the end of the function body
            a = S.text.rfind('\n', 0, m.start()) + 1
            if f.range_end == 'END':
                b = S.toks[loc['body_close']].start
            else:
                # the end anchor may sit on the line the start anchor is on (a region that has shrunk to one line)
                me = re.compile(f.range_end, re.M).search(S.text, a, fb)
                if me and me.end() < m.end():
                    me = re.compile(f.range_end, re.M).search(S.text, m.end(), fb)
                if not me:
                    raise ExtractError('%s: range end anchor %r not found in %s' % (S.path, f.range_end, f.name))
                b = S.text.find('\n', me.end())
                b = fb if b < 0 else b
            raw = S.text[a:b]
            d = 0
            for t in tokenize(raw):
                if t.kind == 'punct' and t.text in '([{':
                    d += 1
                elif t.kind == 'punct' and t.text in ')]}':
                    d -= 1
                    if d < 0:
                        break
            if d != 0 and not f.open_ok:
                raise ExtractError('%s: statement range in %s is not bracket-balanced' % (S.path, f.name))
            f.unclosed = d if d > 0 else 0
        else:
            # block = first '{' at or after match start
            ti = next(i for i, t in enumerate(S.toks) if t.start >= m.start() and t.text == '{' and t.kind == 'punct')
            te = match_close(S.toks, ti)
            a, b = S.toks[ti].start, S.toks[te].end
            if b > fb:
                raise ExtractError('region block escapes function')
            if f.whole:
                a = S.text.rfind('\n', 0, m.start()) + 1
            raw = S.text[a:b]
        f.repo_line = S.line_of(a)
    f.repo_file = S.path
    f.raw = raw
    f.sha = hashlib.sha256(raw.encode()).hexdigest()[:16]
    assert raw in S.text  # identity of text (guard 6)
    where = '%s::%s' % (os.path.basename(S.path), f.outname)
    text = raw
    if getattr(f, 'autoclose', False) and getattr(f, 'unclosed', 0) > 0:
        # R-region: the blocks the range leaves open end where the range ends (what follows in them is outside the region)
        text = text + ' ' + '}' * f.unclosed
        unit.dropped.append('%s: R-region autoclose: %d block(s) opened inside the range are closed at its end; the statements after it in those blocks are not part of the region' % (where, f.unclosed))
    if getattr(f, 'mutation', None):
        rx, repl = f.mutation
        new, n = re.subn(rx, repl, text, count=1, flags=re.M)
        if n != 1 or new.count('\n') != text.count('\n'):
            raise ExtractError('mutant does not apply to %s' % where)
        text = new
    if f.slice:
        from .slicer import slice_text
        text, ndrop, nkept, tracked = slice_text(text, f.slice)
        unit.rule_counts['R-slice'] = unit.rule_counts.get('R-slice', 0) + ndrop
        unit.dropped.append('%s: R-slice kept %d statement(s) mentioning %s, dropped %d' % (where, nkept, '/'.join(tracked), ndrop))
    for iname, iinfo in getattr(unit, 'inlines', []):
        text, napp = apply_inline(text, iname, iinfo)
        if napp:
            unit.rule_counts['R-inline:' + iname] = unit.rule_counts.get('R-inline:' + iname, 0) + napp
    for rule, rx, repl, opts in grws:
        text = _apply_rw(unit, f, text, rule, rx, repl, {k: v for k, v in opts.items() if k not in ('min', 'max')}, where)
    for rule, rx, repl, opts in f.rws:
        text = _apply_rw(unit, f, text, rule, rx, repl, opts, where)

    tmpl_origin = ('tmpl', unit.tmpl_path, f.tmpl_line)
    if f.kind == 'item':
        return [Piece(text, 'repo', S.path, f.repo_line)]

    if f.kind == 'region':
        hdr = '\n'.join(f.header)
        pieces = [Piece(hdr + '\n', 'tmpl', unit.tmpl_path, f.tmpl_line)]
        if f.contract:
            pieces.append(Piece('\n'.join(l for l, _ in f.contract) + '\n', 'contract', unit.tmpl_path, f.contract[0][1]))
        pieces.append(Piece('{\n' + ''.join(l + '\n' for l, _ in f.prologue), 'tmpl', unit.tmpl_path, f.tmpl_line))
        body = text
        toks = tokenize('{' + body + '}')
        for t in toks:
            t.start -= 1
            t.end -= 1
        body_open, body_close = 0, len(toks) - 1
        base_line = f.repo_line
    else:
        toks = tokenize(text)
        fn_idx = next(i for i, t in enumerate(toks) if t.kind == 'ident' and t.text == 'fn')
        body_open = first_brace_at_depth0(toks, fn_idx)
        sig = text[:toks[body_open].start]
        for rx, repl, opts in f.sig:
            sig = _apply_rw(unit, f, sig, 'R-sig', rx, repl, dict(opts, min=opts.get('min', 1)), where)
        if f.outname != f.name:
            sig = re.sub(r'\bfn\s+%s\b' % re.escape(f.name), 'fn ' + f.outname, sig, count=1)
        if not f.noret:
            stoks = tokenize(sig + '{}')
            sfn = next(i for i, t in enumerate(stoks) if t.kind == 'ident' and t.text == 'fn')
            sig = _name_return(sig + '{}', stoks, sfn, len(stoks) - 2)[:-2]
        body = text[toks[body_open].start:]
        toks = tokenize(body)
        body_open, body_close = 0, match_close(toks, 0)
        pieces = [Piece(sig.rstrip() + '\n', 'repo', S.path, f.repo_line)]
        if f.contract:
            pieces.append(Piece('\n'.join(l for l, _ in f.contract) + '\n', 'contract', unit.tmpl_path, f.contract[0][1]))
        base_line = f.repo_line + text[:len(text) - len(body)].count('\n')

    # insertions into body: (offset, text, tmpl_line)
    ins = []
    reshaped = False
    if f.loops:
        lps = loops_in(toks, body_open + 1, body_close)
        if len(lps) == 0 and f.kind in ('fn', 'region'):
            # R-reshape: the function has no loop any more.  A loop-free body needs no invariant: the loop annotations
            # (and the hints whose anchors are gone) are dropped and the body is checked against the same contract.
            reshaped = True
            unit.dropped.append('%s: R-reshape: the function has no loops now; %d loop annotation(s) dropped, the contract is unchanged' % (where, len(f.loops)))
            unit.rule_counts['R-reshape'] = unit.rule_counts.get('R-reshape', 0) + 1
        else:
            for k, lines in f.loops.items():
                if k < 1 or k > len(lps):
                    raise ExtractError('%s: loop #%d not found (function has %d loops)' % (where, k, len(lps)))
                ins.append((toks[lps[k - 1][1]].start, '\n'.join(l for l, _ in lines), lines[0][1]))
        f.n_loops = len(lps)
    for pos, rx, lines in f.hints:
        m = list(re.finditer(rx, body, re.M))
        if len(m) < 1:
            if reshaped:
                continue
            raise ExtractError('%s: hint anchor %r not found' % (where, rx))
        m = m[0]
        if pos == 'before':
            off = body.rfind('\n', 0, m.start()) + 1
        else:
            off = body.find('\n', m.end())
            off = len(body) if off < 0 else off + 1
        ins.append((off, '\n'.join(l for l, _ in lines), lines[0][1]))
    ins.sort()
    cur = 0
    line = base_line
    for off, t, tl in ins:
        seg = body[cur:off]
        if seg:
            pieces.append(Piece(seg if seg.endswith('\n') else seg + '\n', 'repo', S.path, line))
            line += seg.count('\n')
        pieces.append(Piece(t + '\n', 'contract', unit.tmpl_path, tl))
        cur = off
    seg = body[cur:]
    pieces.append(Piece(seg + '\n', 'repo', S.path, line))
    if f.kind == 'region':
        pieces.append(Piece(''.join(l + '\n' for l, _ in f.epilogue) + '}\n', 'tmpl', unit.tmpl_path, f.tmpl_line))
    return pieces


def parse_template(path, mutation=None):
    name = os.path.basename(path).rsplit('.', 1)[0]
    unit = Unit(name)
    unit.tmpl_path = path
    def expand(pth, depth=0):
        out_l = []
        for k, l in enumerate(open(pth).read().split('\n')):
            st = l.strip()
            if st.startswith('//@include '):
                if depth > 5:
                    raise ExtractError('include depth')
                out_l += expand(os.path.join(ROOT, st[len('//@include '):].strip()), depth + 1)
            else:
                out_l.append((l, pth, k + 1))
        return out_l
    xlines = expand(path)
    lines = [x[0] for x in xlines]
    grws = []
    out = []   # list of Piece or Func
    cur = None
    section = None
    i = 0

    def emit_passthru(l, ln):
        out.append(Piece(l + '\n', 'tmpl', xlines[ln - 1][1], xlines[ln - 1][2]))

    while i < len(lines):
        l = lines[i]
        ln = i + 1
        i += 1
        st = l.strip()
        if not st.startswith('//@'):
            if cur is None:
                emit_passthru(l, ln)
            else:
                if section is None:
                    if st:
                        raise ExtractError('%s:%d: text outside a section in fn block' % (path, ln))
                    continue
                section.append((l, ln))
            continue
        d = st[3:].strip()
        if cur is None:
            if d.startswith('unit '):
                continue
            if d.startswith('source '):
                alias, rel = [x.strip() for x in d[7:].split('=')]
                p = os.path.join(REPO, rel)
                if not os.path.exists(p):
                    raise ExtractError('source file %s missing' % p)
                unit.sources[alias] = Source(p, open(p).read())
                continue
            if d.startswith('grw '):
                rule, rest = d[4:].split(None, 1)
                rx, repl, opts = parse_subst(rest)
                grws.append((rule, rx, repl, opts))
                continue
            if d.startswith('fn ') or d.startswith('region ') or d.startswith('item '):
                kind = d.split()[0]
                parts = [x.strip() for x in d[len(kind):].split(' :: ')]
                cur = Func()
                cur.kind = kind
                cur.tmpl_line = ln
                if kind == 'item':
                    cur.alias, cur.container, cur.name = parts[:3]
                    cur.outname = cur.name
                    cur.tags = []
                else:
                    cur.alias, cur.container, cur.name = parts[0], parts[1], parts[2]
                    cur.container = '' if cur.container in ('-', '') else cur.container
                    cur.tags = parts[3].split() if len(parts) > 3 else []
                    cur.outname = cur.name
                    rest = parts[4:]
                    if kind == 'region':
                        cur.region, _ = parse_regex(rest[0])
                        rest = rest[1:]
                    for r in rest:
                        if r.startswith('as '):
                            cur.outname = r[3:].strip()
                        if r == 'whole':
                            cur.whole = True
                        if r == 'open':
                            cur.open_ok = True   # the last line of the range opens a block that a rewrite rule closes or replaces
                        if r == 'autoclose':
                            cur.open_ok = True   # the range ends inside blocks it opened: they are closed where the range ends
                            cur.autoclose = True
                        if r.startswith('to '):
                            cur.range_end = 'END' if r[3:].strip() == 'end' else parse_regex(r[3:])[0]
                section = None
                continue
            if d.startswith('pin '):
                parts = [x.strip() for x in d[4:].split(' :: ')]
                unit.pins.append(dict(alias=parts[0], container='' if parts[1] == '-' else parts[1], name=parts[2],
                                      sha=parts[3] if len(parts) > 3 else '', line=xlines[ln - 1][2], tfile=xlines[ln - 1][1],
                                      tags=parts[4].split() if len(parts) > 4 else []))
                continue
            if d.startswith('mutant '):
                parts = [x.strip() for x in d[7:].split(' :: ', 3)]
                rx, repl, _ = parse_subst(parts[3])
                unit.mutants.append(dict(name=parts[0], fn=parts[1], props=parts[2].split(), rx=rx, repl=repl))
                continue
            if d.startswith('glue '):
                parts = [x.strip() for x in d[5:].split(' :: ')]
                unit.glue.append(dict(id=parts[0], alias=parts[1], container='' if parts[2] == '-' else parts[2],
                                      fn=parts[3], anchor=parse_regex(parts[4])[0], lines=int(parts[5]),
                                      sha=parts[6] if len(parts) > 6 else '', line=xlines[ln - 1][2], tfile=xlines[ln - 1][1]))
                continue
            if d.startswith('#') or not d:
                continue
            raise ExtractError('%s:%d: unknown directive %r' % (path, ln, d))
        else:
            if d in ('endfn', 'endregion', 'enditem'):
                out.append(cur)
                unit.funcs.append(cur)
                cur = None
                section = None
                continue
            if d.startswith('rw '):
                rule, rest = d[3:].split(None, 1)
                rx, repl, opts = parse_subst(rest)
                cur.rws.append((rule, rx, repl, opts))
                section = None
                continue
            if d.startswith('sig '):
                rx, repl, opts = parse_subst(d[4:])
                cur.sig.append((rx, repl, opts))
                section = None
                continue
            if d == 'contract':
                section = cur.contract
                continue
            if d == 'header':
                section = cur.header
                # header lines are plain strings
                cur.header = _HeaderList()
                section = cur.header
                continue
            if d == 'prologue':
                section = cur.prologue
                continue
            if d == 'epilogue':
                section = cur.epilogue
                continue
            if d.startswith('loop '):
                k = int(d[5:])
                cur.loops[k] = []
                section = cur.loops[k]
                continue
            if d.startswith('hint '):
                pos, rest = d[5:].split(None, 1)
                rx, _ = parse_regex(rest)
                hl = []
                cur.hints.append((pos, rx, hl))
                section = hl
                continue
            if d == 'noret':
                cur.noret = True
                continue
            if d.startswith('slice '):
                cur.slice = d[6:].strip()
                section = None
                continue
            if d.startswith('#'):
                continue
            raise ExtractError('%s:%d: unknown directive %r in fn block' % (path, ln, d))
    if cur is not None:
        raise ExtractError('%s: unterminated fn block %s' % (path, cur.name))
    return unit, out, grws


class _HeaderList(list):
    def append(self, item):
        list.append(self, item[0] if isinstance(item, tuple) else item)


LABEL_RE = re.compile(r'//\s*\[([C0-9 ]+)\]\s*(\S+)')


def assemble(tmpl_path, out_path, mutation=None, inlines=None):
    """mutation: (fn outname, regex, repl) applied to that function's raw text."""
    unit, out, grws = parse_template(tmpl_path)
    unit.inlines = []
    for nm in (inlines or []):
        info = find_inlinable(unit, nm)
        if info:
            unit.inlines.append((nm, info))
    if mutation:
        hit = [f for f in unit.funcs if f.outname == mutation[0]]
        if len(hit) != 1:
            raise ExtractError('mutant target %s not in unit' % mutation[0])
        hit[0].mutation = (mutation[1], mutation[2])
    lines = []
    origin = []

    def put(piece):
        txt = piece.text
        if txt.endswith('\n'):
            txt = txt[:-1]
        ln = piece.line
        for k, tl in enumerate(txt.split('\n')):
            lines.append(tl)
            if piece.kind == 'repo':
                origin.append(('repo', os.path.relpath(piece.file, REPO), ln + k))
            else:
                origin.append((piece.kind, os.path.relpath(piece.file, ROOT), ln + k))

    for o in out:
        if isinstance(o, Piece):
            put(o)
        else:
            first = len(lines) + 1
            try:
                pieces = build_func(unit, o, grws)
            except ExtractError as e:
                # a leaf region / function whose anchor is lost is left out and reported: the rest of the unit is still
                # verified (a failing obligation there is a sound violation); the run as a whole can no longer end OK
                if getattr(o, 'mutation', None) or not os.environ.get('VK_SKIP_LOST', '1') == '1':
                    raise
                unit.lost.append((o.outname, str(e), list(getattr(o, 'tags', []) or [])))
                continue
            for p in pieces:
                put(p)
            unit.func_spans[o.outname] = (first, len(lines))
    for k, tl in enumerate(lines):
        m = LABEL_RE.search(tl)
        if m:
            unit.labels[k + 1] = (m.group(1).split(), m.group(2))
    unit.out_lines = lines
    unit.origin = origin
    # pins
    for p in unit.pins:
        S = unit.src(p['alias'])
        loc = S.find_fn(p['container'], p['name'])
        body = norm_ws(S.text[loc['start']:loc['end']])
        p['actual'] = hashlib.sha256(body.encode()).hexdigest()[:16]
        p['ok'] = (p['actual'] == p['sha'])
        p['file'] = os.path.relpath(S.path, REPO)
    for g in unit.glue:
        S = unit.src(g['alias'])
        if g['fn'] == '-':
            loc = dict(start=0, end=len(S.text))
        else:
            loc = S.find_fn(g['container'], g['fn'])
        m = re.compile(g['anchor'], re.M).search(S.text, loc['start'], loc['end'])
        if not m:
            g['ok'] = False
            g['actual'] = 'anchor-lost'
            continue
        ls = S.text.rfind('\n', 0, m.start()) + 1
        e = ls
        for _ in range(g['lines']):
            e = S.text.find('\n', e) + 1
        body = norm_ws(S.text[ls:e])
        g['actual'] = hashlib.sha256(body.encode()).hexdigest()[:16]
        g['ok'] = (g['actual'] == g['sha'])
        g['at'] = '%s:%d' % (os.path.relpath(S.path, REPO), S.line_of(ls))
    os.makedirs(os.path.dirname(out_path), exist_ok=True)
    with open(out_path, 'w') as fh:
        fh.write('\n'.join(lines) + '\n')
    return unit
