"""Minimal Rust-aware scanner: tokens with byte offsets, item and block location.

Handles line and (nested) block comments, string / raw string / byte string
literals, char literals vs lifetimes.  It is a lexer plus brace matching, not a
parser; every consumer states what shape it expects and fails loudly
(ExtractError -> UNDECIDED) when the shape is not found.
"""
import re


class ExtractError(Exception):
    pass


IDENT_RE = re.compile(r'[A-Za-z_][A-Za-z0-9_]*')
NUM_RE = re.compile(r'[0-9][A-Za-z0-9_]*(\.[0-9][A-Za-z0-9_]*)?')


class Tok:
    __slots__ = ('kind', 'text', 'start', 'end')

    def __init__(self, kind, text, start, end):
        self.kind, self.text, self.start, self.end = kind, text, start, end

    def __repr__(self):
        return 'Tok(%s,%r,%d)' % (self.kind, self.text, self.start)


def tokenize(src, keep_comments=False):
    toks = []
    i, n = 0, len(src)
    while i < n:
        c = src[i]
        if c in ' \t\r\n':
            i += 1
            continue
        if src.startswith('//', i):
            j = src.find('\n', i)
            if j < 0:
                j = n
            if keep_comments:
                toks.append(Tok('comment', src[i:j], i, j))
            i = j
            continue
        if src.startswith('/*', i):
            depth, j = 1, i + 2
            while j < n and depth:
                if src.startswith('/*', j):
                    depth += 1
                    j += 2
                elif src.startswith('*/', j):
                    depth -= 1
                    j += 2
                else:
                    j += 1
            if keep_comments:
                toks.append(Tok('comment', src[i:j], i, j))
            i = j
            continue
        # raw strings r"..", r#".."#, br#".."#
        m = re.match(r'b?r(#*)"', src[i:i + 40])
        if m:
            hashes = m.group(1)
            close = '"' + hashes
            j = src.find(close, i + m.end())
            if j < 0:
                raise ExtractError('unterminated raw string at %d' % i)
            j += len(close)
            toks.append(Tok('str', src[i:j], i, j))
            i = j
            continue
        if c == '"' or (c == 'b' and i + 1 < n and src[i + 1] == '"'):
            j = i + (2 if c == 'b' else 1)
            while j < n and src[j] != '"':
                j += 2 if src[j] == '\\' else 1
            j += 1
            toks.append(Tok('str', src[i:j], i, j))
            i = j
            continue
        if c == "'" or (c == 'b' and i + 1 < n and src[i + 1] == "'"):
            k = i + (1 if c == 'b' else 0)
            # char literal: '\..' or 'x' followed by '
            if k + 1 < n and src[k + 1] == '\\':
                j = src.find("'", k + 3)
                # '\'' case
                if src[k + 2] == "'":
                    j = k + 3
                toks.append(Tok('char', src[i:j + 1], i, j + 1))
                i = j + 1
                continue
            # find closing quote right after one (possibly multibyte) char
            if k + 2 < n and src[k + 2] == "'":
                toks.append(Tok('char', src[i:k + 3], i, k + 3))
                i = k + 3
                continue
            if c == "'":
                m = IDENT_RE.match(src, i + 1)
                if m:
                    toks.append(Tok('lifetime', src[i:m.end()], i, m.end()))
                    i = m.end()
                    continue
            raise ExtractError('cannot lex quote at %d' % i)
        m = IDENT_RE.match(src, i)
        if m:
            toks.append(Tok('ident', m.group(0), i, m.end()))
            i = m.end()
            continue
        m = NUM_RE.match(src, i)
        if m:
            toks.append(Tok('num', m.group(0), i, m.end()))
            i = m.end()
            continue
        for p in ('->', '=>', '::', '..=', '...', '..', '&&', '||', '==', '!=', '<=', '>=',
                  '+=', '-=', '*=', '/='):
            if src.startswith(p, i):
                toks.append(Tok('punct', p, i, i + len(p)))
                i += len(p)
                break
        else:
            toks.append(Tok('punct', c, i, i + 1))
            i += 1
    return toks


OPEN = {'(': ')', '[': ']', '{': '}'}
CLOSE = {')': '(', ']': '[', '}': '{'}


def match_close(toks, i):
    """toks[i] is an opening bracket; return index of the matching close."""
    assert toks[i].text in OPEN, toks[i]
    depth = 0
    for j in range(i, len(toks)):
        t = toks[j]
        if t.kind != 'punct':
            continue
        if t.text in OPEN:
            depth += 1
        elif t.text in CLOSE:
            depth -= 1
            if depth == 0:
                return j
    raise ExtractError('unbalanced bracket at byte %d' % toks[i].start)


def first_brace_at_depth0(toks, i, stop=None):
    """Index of first '{' at paren/bracket depth 0 starting at toks[i]."""
    depth = 0
    j = i
    stop = len(toks) if stop is None else stop
    while j < stop:
        t = toks[j]
        if t.kind == 'punct':
            if t.text in '([':
                depth += 1
            elif t.text in ')]':
                depth -= 1
            elif t.text == '{' and depth == 0:
                return j
            elif t.text == ';' and depth == 0:
                raise ExtractError('item without body at byte %d' % toks[i].start)
        j += 1
    raise ExtractError('no body brace after byte %d' % toks[i].start)


def norm_ws(s):
    return ' '.join(s.split())


class Source:
    def __init__(self, path, text):
        self.path = path
        self.text = text
        self.toks = tokenize(text)
        self.line_starts = [0]
        for m in re.finditer('\n', text):
            self.line_starts.append(m.end())

    def line_of(self, off):
        import bisect
        return bisect.bisect_right(self.line_starts, off)

    # ---- containers -------------------------------------------------
    def find_container(self, header):
        """Return (open_idx, close_idx) token indices of the block of the
        top-level `impl ...`/`mod ...`/`trait ...` whose normalised header text
        equals `header`.  header '' means the whole file."""
        if not header:
            return (-1, len(self.toks))
        toks = self.toks
        depth = 0
        i = 0
        want = norm_ws(header)
        found = []
        while i < len(toks):
            t = toks[i]
            if t.kind == 'punct' and t.text == '{':
                depth += 1
            elif t.kind == 'punct' and t.text == '}':
                depth -= 1
            elif depth == 0 and t.kind == 'ident' and t.text in ('impl', 'mod', 'trait'):
                try:
                    b = first_brace_at_depth0(toks, i)
                except ExtractError:
                    i += 1
                    continue
                hdr = norm_ws(self.text[t.start:toks[b].start])
                if hdr == want:
                    found.append((b, match_close(toks, b)))
                i = b
                continue
            i += 1
        if len(found) != 1:
            raise ExtractError('%s: container %r found %d times' % (self.path, header, len(found)))
        return found[0]

    def find_fn(self, header, name):
        """Locate `fn name` directly inside container `header`.
        Returns dict(start, sig_end(body open offset), end, fn_tok, body_open, body_close)."""
        lo, hi = self.find_container(header)
        toks = self.toks
        depth = 0
        hits = []
        i = lo + 1
        while i < hi:
            t = toks[i]
            if t.kind == 'punct' and t.text == '{':
                i = match_close(toks, i) + 1
                continue
            if t.kind == 'ident' and t.text == 'fn' and i + 1 < hi and toks[i + 1].text == name:
                hits.append(i)
            i += 1
        if len(hits) != 1:
            raise ExtractError('%s: fn %s in %r found %d times' % (self.path, name, header, len(hits)))
        f = hits[0]
        # qualifiers before fn: pub, pub(crate), async, unsafe, const, extern "C"
        s = f
        while s - 1 > lo:
            p = toks[s - 1]
            if p.kind == 'ident' and p.text in ('pub', 'async', 'unsafe', 'const', 'extern'):
                s -= 1
            elif p.kind == 'punct' and p.text == ')' and s - 4 > lo and toks[s - 4].text == 'pub':
                s -= 4
            else:
                break
        b = first_brace_at_depth0(toks, f)
        e = match_close(toks, b)
        return dict(start=toks[s].start, fn=f, body_open=b, body_close=e,
                    end=toks[e].end, first=s)

    def find_item(self, kind, name):
        """Top-level `struct|enum name ...{...}` or `...;` including preceding attributes? (no: attributes dropped)."""
        toks = self.toks
        depth = 0
        for i, t in enumerate(toks):
            if t.kind == 'punct' and t.text == '{':
                depth += 1
            elif t.kind == 'punct' and t.text == '}':
                depth -= 1
            elif depth == 0 and t.kind == 'ident' and t.text == kind and toks[i + 1].text == name:
                s = i
                while s - 1 >= 0 and (toks[s - 1].text in ('pub',) or
                                      (toks[s - 1].text == ')' and toks[s - 4].text == 'pub')):
                    s -= 4 if toks[s - 1].text == ')' else 1
                # body: first { or ; at depth 0
                j = i
                d = 0
                while j < len(toks):
                    tt = toks[j]
                    if tt.kind == 'punct':
                        if tt.text in '([':
                            d += 1
                        elif tt.text in ')]':
                            d -= 1
                        elif tt.text == ';' and d == 0:
                            return toks[s].start, tt.end
                        elif tt.text == '{' and d == 0:
                            e = match_close(toks, j)
                            return toks[s].start, toks[e].end
                    j += 1
        raise ExtractError('%s: %s %s not found' % (self.path, kind, name))


LOOP_KW = ('for', 'while', 'loop')


def loops_in(toks, lo, hi):
    """Token indices (keyword idx, body-open idx) of loops in toks[lo:hi], source order."""
    out = []
    i = lo
    while i < hi:
        t = toks[i]
        if t.kind == 'ident' and t.text in LOOP_KW:
            # skip `for<'a>` HRTB and labels are fine
            if t.text == 'for' and toks[i + 1].text == '<':
                i += 1
                continue
            b = first_brace_at_depth0(toks, i + 1, hi)
            out.append((i, b))
        i += 1
    return out
