"""Generate MANIFEST.json from props.json (claimed) + na.json (not applicable)."""
import json, os
ROOT = os.path.dirname(os.path.dirname(os.path.abspath(__file__)))
props = json.load(open(os.path.join(ROOT, 'props.json')))
na = json.load(open(os.path.join(ROOT, 'na.json')))
ids = [json.loads(l)['id'] for l in open(os.path.join(ROOT, 'properties.jsonl'))]
checks = []
for pid in ids:
    if pid in props:
        p = props[pid]
        checks.append(dict(
            property_id=pid,
            quick_cmd='./check %s --tier quick' % pid,
            thorough_cmd='./check %s --tier thorough' % pid,
            evidence_file='/verif/evidence/%s.json' % pid,
            replay_cmd_template='./check %s --replay {path}' % pid,
            engine='vk',
            level_claimed=dict(category=p.get('level', 'proof'), text=p['level_text'], design_ref=p.get('design_ref', 'DESIGN.md section 8')),
            level_note=p['level_note'],
            technique=p.get('technique', 'contract-based deductive verification (Verus) of functions extracted mechanically from /repo on every run'),
        ))
nal = [dict(property_id=pid, reason=na[pid]) for pid in ids if pid not in props]
missing = [pid for pid in ids if pid not in props and pid not in na]
assert not missing, missing
m = dict(
    version=1,
    setup_cmd='python3 -m vk.selftest',
    hooks=dict(guard='zombiezen_redo_rs_verif (cargo feature)',
               enable='cargo build --offline --features zombiezen_redo_rs_verif  (done by /verif/replay, whose Cargo.toml depends on /repo with that feature; only the concrete probes use it, the Verus route reads source text and needs no hook)',
               baseline_off_cmd='cd /repo && cargo test --workspace --no-fail-fast --offline',
               source_commits=json.load(open(os.path.join(ROOT, 'hooks.json')))['source_commits'],
               add_only=True),
    engines=[dict(name='vk', path='/verif/vk', serves_properties=sorted(props),
                  kind_free_text='extract real functions from /repo/src on every run, splice contracts from /verif/units/*.vrs, verify with Verus; Kani/CBMC twin on the same extracted text for counterexamples')],
    checks=checks,
    not_applicable=nal,
    notes='See DESIGN.md. exit 0 = all tagged obligations discharged; exit 1 = VIOLATION; exit 2 = UNDECIDED (never an alarm).',
)
json.dump(m, open(os.path.join(ROOT, 'MANIFEST.json'), 'w'), indent=1)
print('MANIFEST.json: %d checks, %d not_applicable' % (len(checks), len(nal)))
