#!/usr/bin/env python3
"""validate MANIFEST.json and evidence/*.json against the given schemas"""
import json, sys, glob
sys.path.insert(0, '/opt/veriftools/pyvenv/lib/python3.11/site-packages')
try:
    import jsonschema
except Exception as e:
    print('jsonschema not importable:', e); sys.exit(2)
ms = json.load(open('/root/.vp/MANIFEST.schema.json'))
es = json.load(open('/root/.vp/EVIDENCE.schema.json'))
m = json.load(open('/verif/MANIFEST.json'))
jsonschema.validate(m, ms)
ok = True
ids = [json.loads(l)['id'] for l in open('/verif/properties.jsonl')]
claimed = [c['property_id'] for c in m['checks']]
na = [n['property_id'] for n in m.get('not_applicable', [])]
assert sorted(claimed + na) == sorted(ids), (claimed, na)
for c in m['checks']:
    f = c['evidence_file']
    try:
        jsonschema.validate(json.load(open(f)), es)
    except Exception as e:
        ok = False
        print('INVALID', f, str(e)[:300])
print('manifest ok; %d evidence files %s' % (len(m['checks']), 'ok' if ok else 'WITH ERRORS'))
sys.exit(0 if ok else 1)
