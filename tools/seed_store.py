"""python3 tools/seed_store.py ID PROP OUTDIR 'summary' 'needs' 'check' 'first run' 'now': copy a confirmed seeded change into seeded/ID/"""
import sys, os, json, shutil
sid, prop, out, summary, needs, check, first, now = sys.argv[1:9]
rnd = sys.argv[9] if len(sys.argv) > 9 else "6"
d = '/verif/seeded/' + sid
os.makedirs(d, exist_ok=True)
shutil.copy(os.path.join(out, 'patch.diff'), d + '/patch.diff')
if os.path.isdir(d + '/demo'): shutil.rmtree(d + '/demo')
shutil.copytree(os.path.join(out, 'demo'), d + '/demo')
json.dump({'id': sid, 'property': prop, 'summary': summary, 'needs_to_manifest': needs,
           'detected_by': {'check': check, 'first_run': first, 'result': now},
           'source': 'independent sub-agent (round %s) given only the property text and a scratch worktree' % rnd,
           'confirmed': {'test_suite_with_change': 'cargo test --workspace --no-fail-fast --offline: all passed (tools/seed_confirm.sh)',
                         'demo_with_change': 'demo/demo.sh exits 1', 'demo_without_change': 'demo/demo.sh exits 0 (REDO_BIN=/repo/target/debug/redo)'}},
          open(d + '/meta.json', 'w'), indent=1)
print('stored', d)
