#!/bin/sh
# usage: seed_round.sh <round-dir> <Cxx> <prop> [<prop>...]: confirm the seed of <round-dir>/<Cxx> (worktree) + out/<Cxx>, then run the checks on a scratch worktree
R=$1; ID=$2; shift 2
mkdir -p $R/res
{
  echo "=== confirm $ID"; /verif/tools/seed_confirm.sh $R/$ID $R/out/$ID demo.sh 2>&1 | tail -14
  echo "=== check $ID: $*"; /verif/tools/seed_check_wt.sh $R/out/$ID/patch.diff "$@" 2>&1 | grep -v "^WARNING conda"
} > $R/res/$ID.log 2>&1
