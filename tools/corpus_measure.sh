#!/bin/sh
# usage: corpus_measure.sh > result   -- run every seeded demo (and every scenario of a repaired defect) on the current /repo build, twice
REDO_BIN=${REDO_BIN:-/verif/build/redo-target/debug/redo}
export REDO_BIN
for d in /verif/seeded/C*/demo; do
  id=$(basename $(dirname $d))
  [ -f "$d/demo.sh" ] || { echo "$id nodemo"; continue; }
  for k in 1 2; do
    s=$(date +%s)
    ( cd "$d" && timeout 180 sh ./demo.sh >/dev/null 2>&1 ); rc=$?
    e=$(date +%s)
    echo "$id run$k rc=$rc secs=$((e-s))"
  done
done
