#!/bin/sh
# usage: tools/unit_dev.sh <unit> [verus args]: assemble one unit from the current /repo text and run Verus on it (development)
cd /verif || exit 2
u=$1; shift
python3 -c "
import sys
from vk.assemble import assemble
u = assemble('units/$u.vrs', 'build/$u.rs')
print('lost:', u.lost)
" || exit 2
cd build && verus $u.rs --rlimit 30 "$@" 2>&1 | grep -v "^note: \|^warning: unused" | head -${LINES_MAX:-120}
