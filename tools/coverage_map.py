"""python3 tools/coverage_map.py: which source lines of /repo/src are inside some extracted fn/region (by unit), per function."""
import sys, os, re, glob, collections
sys.path.insert(0, '/verif')
from vk.assemble import assemble
cov = collections.defaultdict(set)
for t in sorted(glob.glob('/verif/units/*.vrs')):
    name = os.path.basename(t)[:-4]
    u = assemble(t, '/tmp/covmap_%s.rs' % name)
    os.remove('/tmp/covmap_%s.rs' % name)
    for o in u.origin:
        if o and o[0] == 'repo':
            cov[o[1]].add(o[2])
fnrx = re.compile(r'^\s*(pub(\([a-z]+\))?\s+)?(async\s+)?(unsafe\s+)?fn\s+(\w+)')
for f in sorted(cov) + [x for x in sorted(glob.glob('/repo/src/**/*.rs', recursive=True)) if x[6:] not in cov]:
    rel = f if not f.startswith('/repo/') else f[6:]
    lines = open('/repo/' + rel).read().split('\n')
    # function extents by brace matching from the fn line
    i = 0; out = []
    while i < len(lines):
        m = fnrx.match(lines[i])
        if m and not lines[i].strip().startswith('//'):
            depth = 0; j = i; seen = False
            while j < len(lines):
                depth += lines[j].count('{') - lines[j].count('}')
                if '{' in lines[j]: seen = True
                if seen and depth <= 0: break
                if not seen and lines[j].rstrip().endswith(';'): break
                j += 1
            body = [k + 1 for k in range(i, j + 1) if lines[k].strip() and not lines[k].strip().startswith('//')]
            c = sum(1 for k in body if k in cov.get(rel, ()))
            out.append((m.group(5), i + 1, len(body), c))
            i = j + 1
        else:
            i += 1
    tot = sum(x[2] for x in out); c = sum(x[3] for x in out)
    print('%s: %d/%d code lines of fns covered' % (rel, c, tot))
    for n, ln, b, c in out:
        if b >= 4 and c < b:
            print('    %-40s line %-5d %3d/%3d' % (n, ln, c, b))
