#!/bin/sh
# usage: seed_check_wt.sh <patch.diff> <prop> [<prop>...]   like seed_check.sh, but on a scratch worktree (/tmp/seed/sc) through
# VERIF_REPO, so that /repo is not touched (use while something else reads /repo)
P=$1; shift
W=${SEED_WT:-/tmp/seed/sc}
T=$(basename $W)
[ -d $W ] || git -C /repo worktree add -q --detach $W HEAD || exit 2
git -C $W checkout -q --detach $(git -C /repo rev-parse HEAD) 2>/dev/null
git -C $W diff --quiet || git -C $W checkout -- .
git -C $W apply "$P" || exit 2
export VERIF_REPO=$W VERIF_BUILD=/var/tmp/vk-build-$T VERIF_EVIDENCE_DIR=/var/tmp/vk-ev-$T
for p in "$@"; do (cd /verif && ./check $p --tier quick 2>&1 | grep -E "^(OK|VIOLATION|UNDECIDED|FAILED-OBLIGATION|KNOWN)" | cut -c1-300; echo "rc($p)=$?"); done
git -C $W checkout -- .
