#!/bin/sh
# usage: seed_confirm.sh <worktree-with-change> <out-dir-with-patch+demo> <demo-script-relative-to-out/demo>
# Confirms a seeded change: (1) patch is the worktree's diff, (2) test suite passes with it, (3) demo fails with it,
# (4) demo passes on /repo's current tree.  Prints a summary; nothing is written to /repo.
WT=$1; OUT=$2; DEMO=$3
set -u
cd "$WT" || exit 2
echo "== diff stat"; git diff --stat HEAD -- src | tail -3
git diff HEAD -- src > /tmp/seed_confirm.$$.diff
if ! diff -q /tmp/seed_confirm.$$.diff "$OUT/patch.diff" >/dev/null; then echo "NOTE: patch.diff differs from worktree diff; using worktree diff"; cp /tmp/seed_confirm.$$.diff "$OUT/patch.diff"; fi
rm -f /tmp/seed_confirm.$$.diff
# demos written to "unset every REDO* variable" also unset REDO_BIN itself: keep it
sed -i 's/^\([ \t]*\)unset "\$v"$/\1[ "$v" = REDO_BIN ] || unset "$v"/' "$OUT/demo/$DEMO"
echo "== build + tests with change"
CARGO_NET_OFFLINE=true cargo build --offline 2>&1 | grep -E "^error" | head
CARGO_NET_OFFLINE=true cargo test --workspace --no-fail-fast --offline 2>&1 | grep -E "^test result|FAILED|failed" | head
echo "== demo with change"
( cd "$OUT/demo" && REDO_BIN="$WT/target/debug/redo" sh ./"$DEMO" > /tmp/seed_demo_with.$$ 2>&1; echo "exit=$?" >> /tmp/seed_demo_with.$$ ); tail -5 /tmp/seed_demo_with.$$
echo "== demo without change (/repo build)"
( cd /repo && CARGO_NET_OFFLINE=true cargo build --offline 2>&1 | grep -E "^error" )
( cd "$OUT/demo" && REDO_BIN=/repo/target/debug/redo sh ./"$DEMO" > /tmp/seed_demo_without.$$ 2>&1; echo "exit=$?" >> /tmp/seed_demo_without.$$ ); tail -3 /tmp/seed_demo_without.$$
rm -f /tmp/seed_demo_with.$$ /tmp/seed_demo_without.$$
