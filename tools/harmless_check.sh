#!/bin/sh
# usage: harmless_check.sh <dir-with-h*.diff> [<worktree>] : apply each behaviour-preserving patch (to /repo, or to the given
# scratch worktree through VERIF_REPO, with its own build and evidence directories), run every check, undo.
# A VIOLATION (rc=1) on any of them is a false alarm; UNDECIDED (rc=2) is the price of a lost anchor.
D=$1
R=${2:-/repo}
if [ "$R" != /repo ]; then export VERIF_REPO=$R VERIF_BUILD=/var/tmp/vk-build.$$ VERIF_EVIDENCE_DIR=/var/tmp/vk-ev.$$; fi
git -C "$R" diff --quiet || { echo "$R not clean"; exit 2; }
for p in "$D"/h*.diff; do
  git -C "$R" apply "$p" || { echo "$p: does not apply"; continue; }
  res=""
  for c in $(python3 -c "import json; print(' '.join(sorted(json.load(open('/verif/props.json')))))"); do
    (cd /verif && ./check $c --tier quick >/tmp/harmless.$$ 2>&1); rc=$?
    [ $rc -ne 0 ] && res="$res $c=$rc"
    [ $rc -eq 1 ] && grep -E "^(FAILED-OBLIGATION|VIOLATION)" /tmp/harmless.$$ | cut -c1-200 | sed "s|^|    $c: |"
    [ $rc -eq 2 ] && grep -E "^UNDECIDED" /tmp/harmless.$$ | head -1 | cut -c1-200 | sed "s|^|    $c: |"
  done
  echo "$(basename $p):${res:- all 0}"
  git -C "$R" checkout -- .
done
rm -f /tmp/harmless.$$
if [ "$R" != /repo ]; then rm -rf /var/tmp/vk-build.$$ /var/tmp/vk-ev.$$; else git -C /verif checkout -- evidence 2>/dev/null; fi
