#!/bin/sh
# usage: seed_check.sh <patch.diff> <prop> [<prop>...]   apply to /repo, run the checks, undo
P=$1; shift
cd /repo && git diff --quiet || { echo "/repo not clean"; exit 2; }
git -C /repo apply "$P" || exit 2
for p in "$@"; do (cd /verif && ./check $p --tier quick 2>&1 | grep -E "^(OK|VIOLATION|UNDECIDED|FAILED-OBLIGATION|KNOWN)" | cut -c1-300; echo "rc($p)=$?"); done
git -C /repo checkout -- .
git -C /verif checkout -- evidence 2>/dev/null
