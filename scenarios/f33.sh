#!/bin/sh
# F33 (C09 C04 C06): a script killed by a real-time signal is a failed job, not the end of the run.
# nix's waitpid() reaps the child and then fails with EINVAL for a signal it has no name for; block_on returned that error,
# the build future was dropped with every job in it: no result recorded, <target>.redo.tmp left behind, sibling jobs abandoned.
# Exit 0: redo reports the job's status (-34), removes the temporary, and the sibling finishes; 1: otherwise.
REDO_BIN=${REDO_BIN:-/repo/target/debug/redo}
unset MAKEFLAGS MFLAGS MAKELEVEL DO_BUILT
for v in $(env | sed -n 's/^\(REDO[A-Za-z0-9_]*\)=.*/\1/p'); do
	[ "$v" = REDO_BIN ] || unset "$v"
done
work=$(mktemp -d "${TMPDIR:-/tmp}/f33.XXXXXX") || exit 3
trap 'rm -rf "$work"' EXIT
mkdir "$work/bin" "$work/proj"
for n in redo redo-ifchange redo-ifcreate redo-always redo-stamp redo-ood \
	redo-targets redo-sources redo-log redo-whichdo redo-unlocked; do
	ln -s "$REDO_BIN" "$work/bin/$n"
done
PATH=$work/bin:$PATH
export PATH
cd "$work/proj" || exit 3
cat >rt.do <<'EOD'
echo partial >"$3"
kill -34 $$
sleep 5
EOD
cat >slow.do <<'EOD'
sleep 1
echo slow done
EOD
redo --no-log -j2 -k rt slow >"$work/out" 2>&1; rc=$?
bad=0
[ "$rc" -ne 0 ] || { echo "VIOLATION: redo exited 0 although rt.do was killed"; bad=1; }
grep -q "EINVAL" "$work/out" && { echo "VIOLATION: the run ended with 'EINVAL: Invalid argument' instead of rt's status"; bad=1; }
[ -e rt.redo.tmp ] && { echo "VIOLATION: rt.redo.tmp left behind"; bad=1; }
[ -e rt ] && { echo "VIOLATION: rt exists"; bad=1; }
[ "$(cat slow 2>/dev/null)" = "slow done" ] || { echo "VIOLATION: the sibling job slow was not finished and recorded (slow: $(cat slow 2>/dev/null))"; bad=1; }
[ $bad = 0 ] && echo "ok: rt failed with its signal status (exit $rc), no temporary left, slow built"
sed 's/^/   | /' "$work/out"
exit $bad
