#!/bin/sh
# Side finding (NOT part of the demonstration; it fails on the UNCHANGED tree):
# several top-level commands started at the same time in a project that has no
# .redo directory yet.  Probabilistic: about 5-10 % of the rounds go wrong.
#
# usage: side-finding-first-run.sh [N simultaneous commands, default 4] [rounds, default 200]
# exit 1 if any round showed a spurious failure or lost records.

# F20 (C16): see known_findings.txt.  usage: f20.sh [N] [rounds]
REDO_BIN=${REDO_BIN:-/repo/target/debug/redo}
N=${1:-4}
R=${2:-200}

unset MAKEFLAGS
for v in $(env | sed -n 's/^\(REDO_[A-Za-z0-9_]*\)=.*/\1/p'); do
    [ "$v" = REDO_BIN ] || unset "$v"
done
unset REDO

TMP=$(mktemp -d "${TMPDIR:-/tmp}/c16-side.XXXXXX") || exit 2
trap 'rm -rf "$TMP"' EXIT
trap 'exit 2' INT TERM
mkdir "$TMP/bin"
for n in redo redo-ifchange redo-ifcreate redo-always redo-stamp redo-ood \
         redo-targets redo-sources redo-log redo-whichdo redo-unlocked; do
    ln -s "$REDO_BIN" "$TMP/bin/$n"
done
PATH=$TMP/bin:$PATH
export PATH

fails=0
r=0
while [ $r -lt $R ]; do
    r=$((r + 1))
    d=$TMP/p$r
    mkdir "$d"; cd "$d" || exit 2
    cat >default.out.do <<'EOF'
redo-ifchange "$2.src"
cat "$2.src"
EOF
    i=0; while [ $i -lt $N ]; do i=$((i + 1)); echo $i >t$i.src; done
    i=0; while [ $i -lt $N ]; do i=$((i + 1))
        ( redo t$i.out >log$i 2>&1; echo $? >rc$i ) &
    done
    wait
    bad=0
    i=0; while [ $i -lt $N ]; do i=$((i + 1))
        rc=$(cat rc$i)
        if [ "$rc" != 0 ]; then
            bad=1; echo "round $r: redo t$i.out exited $rc: $(tr '\n' '|' <log$i | cut -c1-200)"
        fi
    done
    nt=$(redo-targets 2>/dev/null | wc -l)
    ns=$(redo-sources 2>/dev/null | wc -l)
    if [ "$nt" != "$N" ] || [ "$ns" != $((N + 1)) ]; then
        bad=1
        echo "round $r: afterwards $nt targets (expected $N), $ns sources (expected $((N + 1))): $(redo-targets 2>&1 | sort | tr '\n' ' ')"
    fi
    [ $bad = 1 ] && fails=$((fails + 1))
    cd "$TMP"; rm -rf "$d"
done
echo "rounds with a spurious failure or lost records: $fails of $R"
[ $fails = 0 ]
