#!/bin/sh
# F12 (C16): redo-ood (a deferred transaction that may write 'forget generated' records after reading) beside a running build.
# exit 0 = no redo-ood invocation failed; exit 1 = spurious 'database is locked'
. "$(dirname "$0")/lib.sh"
trap cleanup EXIT
setup_bin || exit 2
ROUNDS=${1:-8}; PAR=${2:-8}
P="$SCRATCH/proj"; mkdir -p "$P"; cd "$P"
cat > default.do <<'DO'
case "$1" in
  all) deps=""; for i in $(seq 1 30); do deps="$deps t$i"; done; redo-ifchange $deps ;;
  gen) deps=""; for i in $(seq 1 40); do deps="$deps g$i"; done; redo-ifchange $deps ;;
  t*) sleep 0.05; echo "$1" ;;
  g*) echo "$1" ;;
esac
DO
redo all gen >/dev/null 2>&1 || { echo "f12: warm-up build failed"; exit 2; }
fail=0; total=0
for r in $(seq 1 $ROUNDS); do
  rm -f t* g*          # generated targets vanish: redo-ood will 'forget' them (a write) while walking
  redo -j4 all >"$SCRATCH/b.$r" 2>&1 &
  for k in $(seq 1 $PAR); do ( redo-ood >/dev/null 2>"$SCRATCH/q.$r.$k"; echo $? > "$SCRATCH/rc.$r.$k" ) & done
  wait
  for k in $(seq 1 $PAR); do total=$((total+1)); if [ "$(cat "$SCRATCH/rc.$r.$k")" != "0" ]; then fail=$((fail+1)); head -1 "$SCRATCH/q.$r.$k" | cut -c1-160; fi; done
  redo gen >/dev/null 2>&1
done
echo "f12: $fail failures in $total redo-ood invocations"
[ $fail -eq 0 ]
