#!/bin/sh
# F3 (C09, C15): the same target named twice with different spellings in one parallel command.
# exit 0 = redo exits 0 and the target is built once; exit 1 = abort
. "$(dirname "$0")/lib.sh"
trap cleanup EXIT
setup_bin || exit 2
P="$SCRATCH/proj"; mkdir -p "$P/d"; cd "$P"
cat > default.do <<'DO'
echo "run $1" >> "$(dirname "$0")/runs.log" 2>/dev/null || echo "run $1" >> runs.log
sleep 0.3
echo "$1"
DO
redo -j2 x ./x d/../x >"$SCRATCH/out" 2>&1; rc=$?
n=$(grep -c "run x" runs.log 2>/dev/null || echo 0)
echo "f3: exit=$rc builds_of_x=$n"
grep -q panicked "$SCRATCH/out" && { grep -m2 -E "panicked|assert" "$SCRATCH/out"; echo "f3: abort"; exit 1; }
[ $rc -eq 0 ] && [ "$n" = "1" ]
