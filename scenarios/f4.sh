#!/bin/sh
# F4 (C09): a second top-level redo asks for a target that another top-level redo is building.
# exit 0 = both invocations exit 0; exit 1 = one aborted
. "$(dirname "$0")/lib.sh"
trap cleanup EXIT
setup_bin || exit 2
N=${1:-3}
P="$SCRATCH/proj"
fail=0
for run in $(seq 1 $N); do
  rm -rf "$P"; mkdir -p "$P"; cd "$P"
  cat > slow.do <<'DO'
sleep 1.5
echo slow
DO
  redo -j2 slow >"$SCRATCH/a.$run" 2>&1 &
  A=$!
  sleep 0.5
  redo-ifchange slow >"$SCRATCH/b.$run" 2>&1; rcb=$?
  wait $A; rca=$?
  if [ $rca -ne 0 ] || [ $rcb -ne 0 ]; then fail=$((fail+1)); echo "run $run: first=$rca second=$rcb: $(grep -h -m1 -E 'panicked|assert|expected|rror' "$SCRATCH/a.$run" "$SCRATCH/b.$run" | head -2)"; fi
done
echo "f4: $fail/$N runs failed"
[ $fail -eq 0 ]
