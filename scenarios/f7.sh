#!/bin/sh
# F7 (C05): --keep-going and an already-failed target met again in the same run.
# exit 0 = independent targets ok3, ok4 were still built; exit 1 = they were abandoned
. "$(dirname "$0")/lib.sh"
trap cleanup EXIT
setup_bin || exit 2
P="$SCRATCH/proj"; mkdir -p "$P"; cd "$P"
cat > default.do <<'DO'
case "$1" in
  bad) exit 5 ;;
  u) redo-ifchange bad ok3 ok4 ;;
  all) redo-ifchange bad u ok1 ;;
  ok*) echo "$1" ;;
esac
DO
redo -k all >"$SCRATCH/out" 2>&1; rc=$?
miss=""
for f in ok1 ok3 ok4; do [ -e "$f" ] || miss="$miss $f"; done
echo "f7: exit=$rc missing:${miss:- none}"
[ $rc -ne 0 ] || { echo "f7: exit 0 although bad failed"; exit 1; }
[ -z "$miss" ]
