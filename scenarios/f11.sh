#!/bin/sh
# F11 (C04): the script succeeds with output on stdout, but redo cannot create the temp file (no free inode):
# the old target must be left alone.  exit 0 = old target still there; exit 1 = target deleted / abort
. "$(dirname "$0")/lib.sh"
MNT="$SCRATCH/mnt"
cleanup2() { cd /; umount "$MNT" 2>/dev/null; cleanup; }
trap cleanup2 EXIT
setup_bin || exit 2
mkdir -p "$MNT" && mount -t tmpfs -o size=4m,nr_inodes=64 tmpfs "$MNT" || { echo "f11: cannot mount tmpfs"; exit 2; }
cd "$MNT"
cat > x.do <<'DO'
echo "content-$(cat ver)"
if [ -e fill ]; then i=0; while cp /dev/null "f.$i" 2>/dev/null; do i=$((i+1)); done; fi
exit 0
DO
echo 1 > ver
redo --no-log x >"$SCRATCH/o1" 2>&1 || { echo "f11: first build failed"; cat "$SCRATCH/o1"; exit 2; }
[ "$(cat x)" = "content-1" ] || { echo "f11: first build wrong"; exit 2; }
echo 2 > ver; : > fill
redo --no-log x >"$SCRATCH/o2" 2>&1; rc=$?
rm -f f.* fill
if [ ! -e x ]; then echo "f11: exit=$rc and the old target was DELETED although its new content could not be stored"; grep -m2 -E "copy stdout|panicked" "$SCRATCH/o2"; exit 1; fi
echo "f11: exit=$rc target kept: $(cat x)"; grep -q panicked "$SCRATCH/o2" && { echo "f11: abort"; exit 1; }
[ $rc -ne 0 ]
