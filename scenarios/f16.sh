#!/bin/sh
# F16 (C09): a redo process blocks on another builder's lock while its own finished job is still unrecorded
# (and that job's target still locked).  builder::wait_for polled its two arms in pseudo-random order, so
# "all jobs done" could be returned before the finished job's future had run its completion block.
# a.do: redo-ifchange M L;  L.do: redo-ifchange M.  a's redo-ifchange holds M (finished, unrecorded) and blocks on L,
# L's redo-ifchange blocks on M.   exit 0 = build ends in time; exit 1 = hang.
. "$(dirname "$0")/lib.sh"
trap cleanup EXIT
setup_bin || exit 2
P="$SCRATCH/proj"; mkdir -p "$P"; cd "$P"
echo 'redo-ifchange a b' > all.do
echo 'redo-ifchange L' > b.do
printf 'sleep 0.2\nredo-ifchange M L\n' > a.do
printf 'sleep 1\necho m\n' > M.do
printf 'sleep 0.6\nredo-ifchange M\necho l\n' > L.do
fail=0
for i in 1 2 3; do
  rm -rf .redo a b L M all
  timeout ${F16_TIMEOUT:-20} redo -j4 all >"$SCRATCH/out" 2>&1; rc=$?
  echo "f16: round $i exit=$rc"
  if [ $rc -eq 124 ]; then echo "f16: HANG"; pkill -f "$SCRATCH/bin/redo" 2>/dev/null; sleep 1; fail=1; fi
  [ $rc -eq 0 ] || fail=1
done
exit $fail
