#!/bin/sh
# F27 (C09): see known_findings.txt.  the SIGALRM "emergency fallback" in
# jobserver::try_read() cannot interrupt a blocked read(), because
# nix::sys::signal::signal() is glibc signal(), which installs the handler
# with SA_RESTART.  A redo that loses the race for a token between its
# select() and its read() therefore stays inside read() -- and handles no child
# exit -- until somebody writes another token.  At -j1 nobody ever does.
#
# The race window (a few microseconds between try_read's select() and read())
# is widened here with strace's syscall delay injection; the "other process
# that grabs the token first" is played by a1.do itself, which puts an extra
# token into the pipe and takes it back 0.15 s later (net effect: none).
#
# Exit status 0 = build finished, 1 = redo hung (killed after the bound).
REDO_BIN=${REDO_BIN:-/repo/target/debug/redo}
unset MAKEFLAGS MFLAGS REDO DO_BUILT
for v in $(env | sed -n 's/^\(REDO_[A-Za-z0-9_]*\)=.*/\1/p'); do
	[ "$v" = REDO_BIN ] || unset "$v"
done
TOP=$(mktemp -d "${TMPDIR:-/tmp}/c09-side.XXXXXX") || exit 2
[ -n "$KEEP" ] || trap 'rm -rf "$TOP"' EXIT   # KEEP=1 keeps the trace in $TOP
[ -z "$KEEP" ] || echo "TOP=$TOP" >&2
mkdir "$TOP/bin" "$TOP/p"
for n in redo redo-ifchange redo-ifcreate redo-always redo-stamp redo-ood \
	redo-targets redo-sources redo-log redo-whichdo redo-unlocked; do
	ln -s "$REDO_BIN" "$TOP/bin/$n"
done
PATH="$TOP/bin:$PATH"; export PATH
cd "$TOP/p" || exit 2
cat >A.do <<'EOS'
redo-ifchange a1 a2
EOS
cat >a1.do <<'EOS'
# MAKEFLAGS carries --jobserver-auth=R,W
fds=$(echo "$MAKEFLAGS" | sed -n 's/.*--jobserver-auth=\([0-9]*\),\([0-9]*\).*/\1 \2/p')
set -- $fds
sleep 0.5
python3 -c '
import os, sys, time
r, w = int(sys.argv[1]), int(sys.argv[2])
os.write(w, b"t")      # a token shows up ...
time.sleep(0.15)
os.read(r, 1)          # ... and somebody else is quicker
' "$1" "$2"
sleep 1
echo a1
EOS
cat >a2.do <<'EOS'
echo a2
EOS
# delay setitimer (only try_read calls it) by 0.4 s: that call sits between try_read's select() and read()
timeout -s KILL ${BOUND:-20} strace -f -o "$TOP/trace" -e trace=read,rt_sigaction,setitimer,pselect6 \
	-e inject=setitimer:delay_enter=400000 \
	redo --no-log -j1 A >"$TOP/out" 2>&1
st=$?
echo "redo --no-log -j1 A -> exit status $st (137 = killed after the bound: hung)"
echo "--- SIGALRM handler as installed:"
grep 'rt_sigaction(SIGALRM, {sa_handler=0x' "$TOP/trace" | head -2
echo "--- restarted reads on the token pipe: $(grep -c 'ERESTARTSYS' "$TOP/trace")"
grep -m3 'ERESTARTSYS' "$TOP/trace"
[ "$st" -eq 0 ] || exit 1
