#!/bin/sh
# F24 (C04, C09): see known_findings.txt.  A script that makes $3 a directory and then fails:
# redo must fail with the script's status, leave the old target alone, leave no temporary
# output behind, and a later build of the target must work again.
# Exit 0: all of that holds.  Exit 1: it does not.
REDO_BIN=${REDO_BIN:-/repo/target/debug/redo}
unset MAKEFLAGS MFLAGS MAKELEVEL DO_BUILT
for v in $(env | sed -n 's/^\(REDO[A-Za-z0-9_]*\)=.*/\1/p'); do
	[ "$v" = REDO_BIN ] || unset "$v"
done
work=$(mktemp -d "${TMPDIR:-/tmp}/f24.XXXXXX") || exit 3
trap 'rm -rf "$work"' EXIT
mkdir "$work/bin" "$work/proj"
for n in redo redo-ifchange redo-ifcreate redo-always redo-stamp redo-ood \
	redo-targets redo-sources redo-log redo-whichdo redo-unlocked; do
	ln -s "$REDO_BIN" "$work/bin/$n"
done
PATH=$work/bin:$PATH
export PATH
cd "$work/proj" || exit 3
bad=0
echo 'echo good' >a.do
redo --no-log a || { echo "first build failed"; exit 3; }
printf 'mkdir "$3"\necho x >"$3/f"\nexit 7\n' >a.do
rc=0; redo --no-log a 2>err.log || rc=$?
echo "--- failing script that made \$3 a directory: exit status $rc"; sed 's/^/    /' err.log
[ "$rc" -ne 0 ] && [ "$rc" -ne 101 ] || { echo "BAD: status $rc (0 = swallowed, 101 = panic)"; bad=1; }
grep -q panicked err.log && { echo "BAD: redo panicked"; bad=1; }
[ "$(cat a)" = good ] || { echo "BAD: previous target content lost"; bad=1; }
ls -d a.redo*.tmp >/dev/null 2>&1 && { echo "BAD: temporary output left behind: $(ls -d a.redo*.tmp)"; bad=1; }
echo 'echo again' >a.do
rc=0; redo --no-log a 2>err2.log || rc=$?
echo "--- repaired script: exit status $rc"; sed 's/^/    /' err2.log
[ "$rc" -eq 0 ] && [ "$(cat a)" = again ] || { echo "BAD: the target cannot be built any more"; bad=1; }
exit $bad
