#!/bin/sh
# F31 (C01 C03): see known_findings.txt.  A checksummed target is edited by hand, its dependent rebuilt from that, then the
# hand-made file is deleted and the target regenerated with its old content.  Exit 0: the dependent follows; 1: it stays stale.
REDO_BIN=${REDO_BIN:-/repo/target/debug/redo}
unset MAKEFLAGS MFLAGS MAKELEVEL DO_BUILT
for v in $(env | sed -n 's/^\(REDO[A-Za-z0-9_]*\)=.*/\1/p'); do
	[ "$v" = REDO_BIN ] || unset "$v"
done
work=$(mktemp -d "${TMPDIR:-/tmp}/f31.XXXXXX") || exit 3
trap 'rm -rf "$work"' EXIT
mkdir "$work/bin" "$work/proj"
for n in redo redo-ifchange redo-ifcreate redo-always redo-stamp redo-ood \
	redo-targets redo-sources redo-log redo-whichdo redo-unlocked; do
	ln -s "$REDO_BIN" "$work/bin/$n"
done
PATH=$work/bin:$PATH
export PATH
cd "$work/proj" || exit 3
cat >T.do <<'EOF'
redo-ifchange in
cat in >$3
redo-stamp <$3
EOF
cat >D.do <<'EOF'
redo-ifchange T
cat T
EOF
echo one >in
redo-ifchange D >/dev/null 2>&1 || { echo "set-up build failed"; exit 3; }
sleep 1
echo hand >T
redo-ifchange D >/dev/null 2>&1
d2=$(cat D)
rm -f T
redo-ifchange D >/dev/null 2>&1; rc3=$?
echo "after the override D='$d2'; after rm T and redo-ifchange D (exit $rc3): T='$(cat T)' D='$(cat D)'"
[ "$rc3" -eq 0 ] && [ "$(cat T)" = one ] && [ "$(cat D)" = one ] && exit 0
exit 1
