#!/bin/sh
# F22 (C01 C07; NOT covered by any obligation: a whole-run interleaving, see DESIGN.md section 9): `redo -j2 x z` with
# z -> y -> x.  While the forced rebuild of x is still running, z.do's `redo-ifchange y` walks y's dependencies, finds x
# clean (the old file is in place) and marks y "checked in this run".  x is then recorded as changed in the same run; run
# ids are the only clock, so "changed in run R" is never newer than "checked in run R": y keeps the old x, in this
# invocation and in every later one, exit 0.  At -j1 x is rebuilt first and y follows.
# exit 0 = y follows x at -j2 as at -j1; exit 1 = stale y.  (first reported by the sub-agent of seeded/C07-02)
. "$(dirname "$0")/lib.sh"
trap cleanup EXIT
setup_bin || exit 2
P="$SCRATCH/proj"; mkdir -p "$P"; cd "$P"
printf '[ -e slow ] && sleep 2\ncat src\n' > x.do
printf 'redo-ifchange x\ncat x\n' > y.do
printf '[ -e slow ] && sleep 0.7\nredo-ifchange y\ncat y\n' > z.do
echo v1 > src
redo -j2 x z >/dev/null 2>&1 || { echo "f22: setup failed"; exit 2; }
echo v2 > src; touch slow
redo -j2 x z >"$SCRATCH/out" 2>&1; rc=$?
rm -f slow
echo "f22: redo -j2 x z exit=$rc  x=$(cat x) y=$(cat y) z=$(cat z)"
redo-ifchange z >/dev/null 2>&1
echo "f22: after a further redo-ifchange z: y=$(cat y) z=$(cat z)"
[ "$(cat y)" = v2 ] || { echo "f22: STALE y (depends on x=v2) after exit 0"; exit 1; }
exit 0
