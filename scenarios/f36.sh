#!/bin/sh
# F36 (C09), recorded finding: select()'s fd_set holds descriptors below FD_SETSIZE (1024) and nix's FdSet::insert asserts it.
# The parent keeps one pipe descriptor (>= 50) per running job: with about 970 jobs of one process running at once -- `redo -j1000`
# is accepted -- a descriptor >= 1024 is put into the set and redo aborts ("fd must be in the range 0..FD_SETSIZE", exit 101)
# although every script would succeed.  Needs `ulimit -n` well above 1024 (with the usual soft limit of 1024 the pipe() fails first,
# which is an error, not an abort).  Heavy: 1000 shells sleeping 6 s.  Exit 0: redo exits 0; 1: it aborted.
REDO_BIN=${REDO_BIN:-/repo/target/debug/redo}
unset MAKEFLAGS MFLAGS MAKELEVEL DO_BUILT
for v in $(env | sed -n 's/^\(REDO[A-Za-z0-9_]*\)=.*/\1/p'); do
	[ "$v" = REDO_BIN ] || unset "$v"
done
work=$(mktemp -d "${TMPDIR:-/var/tmp}/f36.XXXXXX") || exit 3
trap 'rm -rf "$work"' EXIT
mkdir "$work/bin" "$work/proj"
for n in redo redo-ifchange redo-ifcreate redo-always redo-stamp redo-ood \
	redo-targets redo-sources redo-log redo-whichdo redo-unlocked; do
	ln -s "$REDO_BIN" "$work/bin/$n"
done
PATH=$work/bin:$PATH
export PATH
cd "$work/proj" || exit 3
ulimit -n 8192 || { echo "cannot raise the descriptor limit: not applicable here"; exit 3; }
printf 'sleep 6\necho x\n' >default.t.do
redo --no-log -j1000 $(seq -f "%g.t" 1 1000) >"$work/out" 2>&1; rc=$?
if [ $rc -eq 0 ]; then echo "ok: redo -j1000 with 1000 targets exited 0"; exit 0; fi
echo "VIOLATION: redo -j1000 exited $rc: $(grep -m1 -A1 panicked "$work/out" | tr '\n' ' ' | cut -c1-300)"
exit 1
