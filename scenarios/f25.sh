#!/bin/sh
# F25 (C10, C09, C11): see known_findings.txt.  The first build of a target whose script calls redo-stamp is killed
# before the result is recorded (the record says "generated", no stamp); the user then writes the file by hand.
# redo must leave the hand-written file alone AND must not abort.
# Exit 0: holds.  Exit 1: it does not.
REDO_BIN=${REDO_BIN:-/repo/target/debug/redo}
unset MAKEFLAGS MFLAGS MAKELEVEL DO_BUILT
for v in $(env | sed -n 's/^\(REDO[A-Za-z0-9_]*\)=.*/\1/p'); do
	[ "$v" = REDO_BIN ] || unset "$v"
done
work=$(mktemp -d "${TMPDIR:-/tmp}/f25.XXXXXX") || exit 3
trap 'rm -rf "$work"' EXIT
mkdir "$work/bin" "$work/proj"
for n in redo redo-ifchange redo-ifcreate redo-always redo-stamp redo-ood \
	redo-targets redo-sources redo-log redo-whichdo redo-unlocked; do
	ln -s "$REDO_BIN" "$work/bin/$n"
done
PATH=$work/bin:$PATH
export PATH
cd "$work/proj" || exit 3
cat >config.h.do <<'EOF2'
echo '/* generated */' >"$3"
redo-stamp <"$3"
: >"$PWD/stamped.marker"
sleep 30
EOF2
setsid sh -c 'echo $$ >pgid; exec redo --no-log config.h' >first.log 2>&1 &
i=0; while [ ! -e stamped.marker ] && [ $i -lt 100 ]; do sleep 0.1; i=$((i+1)); done
[ -e stamped.marker ] || { echo "precondition: script never reached redo-stamp"; exit 3; }
python3 -c "import os; os.killpg(int(open('pgid').read()), 9)" 2>/dev/null || { echo "precondition: could not kill the process group"; exit 3; }
sleep 0.3
rm -f config.h.redo.tmp
echo '/* written by hand */' >config.h
bad=0
rc=0; redo-ifchange config.h >second.log 2>&1 || rc=$?
echo "--- redo-ifchange config.h after the kill and the hand edit: exit status $rc"; grep -v '^ *[0-9]*:\|^ *at ' second.log | sed 's/^/    /' | head -8
grep -q panicked second.log && { echo "BAD: redo panicked"; bad=1; }
[ "$rc" -ne 101 ] || { echo "BAD: exit status 101"; bad=1; }
[ "$(cat config.h)" = '/* written by hand */' ] || { echo "BAD: the hand-written file was replaced"; bad=1; }
exit $bad
