#!/bin/sh
# F8 (C10): kill redo right after it renamed the new target into place and before it committed the new stamp.
# exit 0 = the next runs recover (target follows its source again); exit 1 = target is never rebuilt again
. "$(dirname "$0")/lib.sh"
trap cleanup EXIT
setup_bin || exit 2
command -v gdb >/dev/null || { echo "f8: gdb not available"; exit 2; }
P="$SCRATCH/proj"; mkdir -p "$P"; cd "$P"
cat > t.do <<'DO'
redo-ifchange src
echo "built from $(cat src) padding-$(cat src | wc -c)"
DO
echo one > src
redo --no-log t >/dev/null 2>&1 || { echo "f8: first build failed"; exit 2; }
sleep 1.1; echo two-longer > src
# rebuild under gdb; stop at the return of the first rename(2) made by the top-level process and kill it there
gdb -q -batch -ex "set follow-fork-mode parent" -ex "set detach-on-fork on" -ex "catch syscall rename renameat renameat2" \
    -ex run -ex continue -ex kill --args "$SCRATCH/bin/redo" --no-log t >"$SCRATCH/gdb.out" 2>&1
grep -q "Catchpoint" "$SCRATCH/gdb.out" || { echo "f8: gdb did not reach rename"; tail -5 "$SCRATCH/gdb.out"; exit 2; }
echo "f8: after the kill: t='$(cat t 2>/dev/null)'"
sleep 1.1; echo three-even-longer > src
redo-ifchange t >"$SCRATCH/r1" 2>&1; rc=$?
got=$(cat t 2>/dev/null)
echo "f8: recovery run exit=$rc t='$got'"
case "$got" in *three-even-longer*) echo "f8: recovered"; exit 0;; esac
grep -m1 -i "modified" "$SCRATCH/r1"
echo "f8: NOT recovered: the target no longer reacts to source changes"; exit 1
