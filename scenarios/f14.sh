#!/bin/sh
# F14 (C12): both members of a two-target cycle requested by one parallel command.
# a needs b, b needs a; `redo -j4 a b` starts both as sibling jobs of one process, each child then waits for the lock
# the top-level process holds for the other.  exit 0 = cyclic-dependency error in bounded time; exit 1 = hang.
. "$(dirname "$0")/lib.sh"
trap cleanup EXIT
setup_bin || exit 2
P="$SCRATCH/proj"; mkdir -p "$P"; cd "$P"
cat > a.do <<'DO'
sleep 0.3
redo-ifchange b
echo a
DO
cat > b.do <<'DO'
sleep 0.3
redo-ifchange a
echo b
DO
timeout ${F14_TIMEOUT:-8} redo -j4 a b >"$SCRATCH/out" 2>&1; rc=$?
echo "f14: exit=$rc"
tail -n 6 "$SCRATCH/out" | sed 's/^/    | /'
if [ $rc -eq 124 ]; then echo "f14: HANG (no cyclic-dependency error within the bound)"; pkill -f "$SCRATCH/bin/redo" 2>/dev/null; exit 1; fi
grep -qi "cyclic" "$SCRATCH/out" && [ $rc -ne 0 ]
