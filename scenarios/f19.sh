#!/bin/sh
# Side finding (present on the UNCHANGED tree, independent of patch.diff):
# a sub-redo whose JobServerHandle::start() fails after it has destroyed its
# token (pipe/fork error) loses one token of the enclosing jobserver.
#
# Exit 0: tokens conserved.  Exit 1: top-level self check reports a lost token.

# F19 (C08): see known_findings.txt
REDO_BIN=${REDO_BIN:-/repo/target/debug/redo}
unset MAKEFLAGS MFLAGS MAKELEVEL DO_BUILT
for v in $(env | sed -n 's/^\(REDO[A-Za-z0-9_]*\)=.*/\1/p'); do
	[ "$v" = REDO_BIN ] || unset "$v"
done

work=$(mktemp -d "${TMPDIR:-/tmp}/c08-side.XXXXXX") || exit 3
trap 'rm -rf "$work"' EXIT
mkdir "$work/bin" "$work/proj"
for n in redo redo-ifchange redo-ifcreate redo-always redo-stamp redo-ood \
	redo-targets redo-sources redo-log redo-whichdo redo-unlocked; do
	ln -s "$REDO_BIN" "$work/bin/$n"
done
PATH=$work/bin:$PATH
export PATH
cd "$work/proj" || exit 3

# The job pipe of a build job is dup'ed to a descriptor >= 50.  With a
# descriptor limit of 45 that fails (EINVAL) in the sub-redo, after it has
# already destroyed its own token.  The inherited jobserver descriptors
# (100..103) stay usable: lowering the limit does not close them.
cat >all.do <<'EOF'
rc=0
( ulimit -n 45; exec redo-ifchange y ) || rc=$?
echo "sub-redo exit status: $rc" >&2
EOF
echo 'echo y' >y.do

rc=0
redo -j2 all >top.log 2>&1 || rc=$?
echo "--- 'redo -j2 all': exit status $rc"
sed 's/^/    /' top.log
if grep -q 'on exit: expected .* tokens' top.log; then
	echo "FAIL: token lost"
	exit 1
fi
echo "PASS"
