#!/bin/sh
# F28 (C15, C07): as F26, but the symlinked directory is dangling: its destination is created by the script. A target reached through a
# symlinked directory: the name recorded before the directory exists must be the name used once it exists.
# Exit 0: one record, built once.  Exit 1: two records for one file / second request mishandled.
REDO_BIN=${REDO_BIN:-/repo/target/debug/redo}
unset MAKEFLAGS MFLAGS MAKELEVEL DO_BUILT
for v in $(env | sed -n 's/^\(REDO[A-Za-z0-9_]*\)=.*/\1/p'); do
	[ "$v" = REDO_BIN ] || unset "$v"
done
work=$(mktemp -d "${TMPDIR:-/tmp}/f26.XXXXXX") || exit 3
trap 'rm -rf "$work"' EXIT
mkdir "$work/bin" "$work/proj"
for n in redo redo-ifchange redo-ifcreate redo-always redo-stamp redo-ood \
	redo-targets redo-sources redo-log redo-whichdo redo-unlocked; do
	ln -s "$REDO_BIN" "$work/bin/$n"
done
PATH=$work/bin:$PATH
export PATH
cd "$work/proj" || exit 3
ln -s real link
cat >default.gen.do <<'EOF2'
mkdir -p "$TOP/real/newdir"
echo "$1" >>"$TOP/trace"
echo made
EOF2
TOP=$PWD; export TOP
redo --no-log link/newdir/t.gen || { echo "first build failed"; exit 3; }
redo-ifchange link/newdir/t.gen; rc=$?
echo "--- names recorded for t.gen:"
python3 - <<'EOF3'
import sqlite3
db = sqlite3.connect('.redo/db.sqlite3')
rows = sorted(r[0] for r in db.execute("select name from Files where name like '%t.gen'"))
for r in rows: print('   ', r)
raise SystemExit(0 if rows == ['real/newdir/t.gen'] else 1)
EOF3
bad=$?
echo "--- second request: exit status $rc; script ran $(wc -l <trace) time(s)"
[ "$rc" -eq 0 ] || bad=1
exit $bad
