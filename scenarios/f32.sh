#!/bin/sh
# F32 (C11): a symbolic link to a DIRECTORY that the user made, whose name matches a rule, must not be built over.
# Exit 0: the link is left as it was; 1: redo replaced it.
REDO_BIN=${REDO_BIN:-/repo/target/debug/redo}
unset MAKEFLAGS MFLAGS MAKELEVEL DO_BUILT
for v in $(env | sed -n 's/^\(REDO[A-Za-z0-9_]*\)=.*/\1/p'); do
	[ "$v" = REDO_BIN ] || unset "$v"
done
work=$(mktemp -d "${TMPDIR:-/tmp}/f32.XXXXXX") || exit 3
trap 'rm -rf "$work"' EXIT
mkdir "$work/bin" "$work/proj"
for n in redo redo-ifchange redo-ifcreate redo-always redo-stamp redo-ood \
	redo-targets redo-sources redo-log redo-whichdo redo-unlocked; do
	ln -s "$REDO_BIN" "$work/bin/$n"
done
PATH=$work/bin:$PATH
export PATH
cd "$work/proj" || exit 3
echo 'echo built by redo' >default.txt.do
mkdir shared; echo precious >shared/data
ln -s shared notes.txt                 # the user's own file: a link to a directory
redo --no-log notes.txt; rc1=$?
redo-ifchange notes.txt; rc2=$?
if [ -L notes.txt ] && [ "$(readlink notes.txt)" = shared ] && [ "$(cat shared/data)" = precious ]; then
	echo "ok: the user's link is untouched (exit $rc1, $rc2)"
	exit 0
fi
echo "VIOLATION: notes.txt was the user's symbolic link; now: $(ls -l notes.txt | cut -c1-80)"
[ -f notes.txt ] && echo "content: $(cat notes.txt)"
exit 1
