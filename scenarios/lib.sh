# common helpers for scenario replays with the real binaries.
# usage: . lib.sh; setup_bin  (builds /repo debug binary into a scratch target dir unless REDO_BIN is set)
set -u
SCRATCH=${SCRATCH:-/var/tmp/redo-verif.$$}
mkdir -p "$SCRATCH"
cleanup() { rm -rf "$SCRATCH"; }
setup_bin() {
  if [ -z "${REDO_BIN:-}" ]; then
    ( cd /repo && CARGO_NET_OFFLINE=true cargo build --offline --quiet --bin redo --target-dir "$SCRATCH/target" ) || return 2
    REDO_BIN="$SCRATCH/target/debug/redo"
  fi
  mkdir -p "$SCRATCH/bin"
  for n in redo redo-always redo-ifchange redo-ifcreate redo-log redo-ood redo-sources redo-stamp redo-targets redo-unlocked redo-whichdo; do
    ln -sf "$REDO_BIN" "$SCRATCH/bin/$n"
  done
  PATH="$SCRATCH/bin:$PATH"; export PATH
  unset MAKEFLAGS REDO_CHEATFDS REDO REDO_BASE REDO_STARTDIR REDO_PWD REDO_TARGET REDO_DEPTH REDO_RUNID REDO_UNLOCKED REDO_NO_OOB REDO_LOCKS_BROKEN REDO_CYCLES 2>/dev/null || true
}
