#!/bin/sh
# F29 (C08): see known_findings.txt.  Exit 0: the inherited jobserver holds the tokens it started with; 1: it does not.
#
# A redo that runs under an inherited (make-style) jobserver can exit holding
# no token at all: the reap of its last child consumed a "debt" byte of the
# cheat pipe.  do_force_return_tokens() then records a new debt byte for
# "whoever reaps us" -- but the outermost redo is reaped by make (here: this
# script), which knows nothing about REDO_CHEATFDS.  Its tokens were already
# written to the jobserver pipe, so the pipe ends up with one token MORE than
# it had: a token has been created.
#
# History: like demo.sh, but a.do runs `redo c`, so that a's redo -- after it
# had to cheat -- rebuilds c on the cheat token, and that second build of c
# outlives b and d.  a is therefore reaped last, and its reap eats the debt.
#
# exit 0: fifo holds what it started with; exit 1: it does not; 2: inconclusive.

if [ -z "${REDO_BIN:-}" ] || [ ! -x "$REDO_BIN" ]; then
	echo "REDO_BIN must be the absolute path of the redo binary" >&2
	exit 2
fi
unset MAKEFLAGS
for v in $(env | sed -n 's/^\(REDO[A-Za-z0-9_]*\)=.*/\1/p'); do
	[ "$v" = REDO_BIN ] || unset "$v"
done
W=$(mktemp -d) || exit 2
cleanup() {
	exec 8<&- 9<&- 2>/dev/null
	rm -rf "$W"
}
trap cleanup EXIT
trap 'exit 2' INT TERM HUP
mkdir "$W/bin" "$W/p"
for n in redo redo-ifchange redo-ifcreate redo-always redo-stamp redo-ood \
	redo-targets redo-sources redo-whichdo redo-log redo-unlocked; do
	ln -s "$REDO_BIN" "$W/bin/$n"
done
PATH="$W/bin:$PATH"
export PATH

cat >"$W/p/lib.sh" <<'EOF'
waitfor() {
	i=0
	while [ ! -e "$1" ]; do
		i=$((i + 1))
		if [ "$i" -gt 200 ]; then
			echo "TIMEOUT waiting for $1" >&2
			: >timeout.mark
			exit 90
		fi
		sleep 0.1
	done
}
EOF
cat >"$W/p/a.do" <<'EOF'
. ./lib.sh
waitfor c.started
redo c                  # locked: gives its token up, waits, cheats, rebuilds c
echo a
EOF
cat >"$W/p/b.do" <<'EOF'
. ./lib.sh
redo-ifchange c
waitfor c.again         # keep this job's (real) token busy until a has cheated
echo b
: >b.end
EOF
cat >"$W/p/c.do" <<'EOF'
. ./lib.sh
if [ ! -e c.started ]; then
	: >c.started
	waitfor d.started
else
	: >c.again          # second build: runs on a's cheat token
	waitfor b.end
	waitfor d.end
	sleep 1             # b and d are reaped before we finish
fi
echo c
EOF
cat >"$W/p/d.do" <<'EOF'
. ./lib.sh
: >d.started
waitfor c.again
echo d
: >d.end
EOF

mkfifo "$W/jobs" || exit 2
exec 8<>"$W/jobs" 9<>"$W/jobs"
count_tokens() {
	printf X >&9
	n=0
	while :; do
		ch=$(dd bs=1 count=1 <&8 2>/dev/null)
		[ "$ch" = X ] && break
		n=$((n + 1))
		[ "$n" -gt 1000 ] && break
	done
	echo "$n"
}
printf t >&9
before=1
MAKEFLAGS=" -j --jobserver-auth=8,9"
export MAKEFLAGS
(cd "$W/p" && exec redo a b d) >"$W/out" 2>"$W/err" &
pid=$!
(sleep 50; kill "$pid" 2>/dev/null) >/dev/null 2>&1 &
wd=$!
wait "$pid"
rc=$?
kill "$wd" 2>/dev/null
wait "$wd" 2>/dev/null
unset MAKEFLAGS
after=$(count_tokens)
echo "exit status: $rc"
sed 's/^/ | /' "$W/err"
echo "tokens in the inherited jobserver: before=$before after=$after"
if [ "$rc" -ne 0 ] || [ -e "$W/p/timeout.mark" ] || [ ! -e "$W/p/c.again" ]; then
	echo "inconclusive: the history could not be driven"
	exit 2
fi
if [ "$after" -ne "$before" ]; then
	echo "VIOLATION (unchanged tree): redo exited holding no token after having"
	echo "written all of them to the pipe; the jobserver gained $((after - before)) token(s)"
	exit 1
fi
echo "ok: the jobserver holds the tokens it started with"
exit 0
