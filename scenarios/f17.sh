#!/bin/sh
# F17 (C09): a redo process that waits longer than about 66 s for a job token (no child of its own, no cheat) aborted:
# `backoff *= 2` on a std::time::Duration panics with 'overflow when multiplying duration by scalar' after 71 doublings.
# exit 0 = build succeeds; exit 1 = abort (takes about 95 s).
. "$(dirname "$0")/lib.sh"
trap cleanup EXIT
setup_bin || exit 2
P="$SCRATCH/proj"; mkdir -p "$P"; cd "$P"
printf 'redo-ifchange x\nsleep 90\n' > a.do
printf 'sleep 2\n' > x.do
printf 'sleep 0.5\nredo-ifchange x\n' > b.do
printf 'sleep 90\n' > c.do
timeout 200 redo -j2 a b c >"$SCRATCH/out" 2>&1; rc=$?
echo "f17: exit=$rc"
grep -E "panicked|overflow" "$SCRATCH/out" | head -3 | sed 's/^/    | /'
if grep -q "panicked" "$SCRATCH/out"; then echo "f17: ABORT on an internal panic"; exit 1; fi
[ $rc -eq 0 ]
