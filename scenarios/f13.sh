#!/bin/sh
# F13 (C12): a dependency cycle that closes through a checksummed (redo-stamp) target.
# t depends on s; s stamps its output; later s.do also asks for t.  `redo-ifchange t` must end with a
# cyclic-dependency error in bounded time.  exit 0 = error reported in time; exit 1 = still running after the bound.
. "$(dirname "$0")/lib.sh"
trap cleanup EXIT
setup_bin || exit 2
P="$SCRATCH/proj"; mkdir -p "$P"; cd "$P"
cat > t.do <<'DO'
redo-ifchange s
cat s
DO
cat > s.do <<'DO'
echo stable
echo stable | redo-stamp
DO
redo t >"$SCRATCH/out0" 2>&1 || { echo "f13: setup build failed"; cat "$SCRATCH/out0"; exit 2; }
sleep 1.1
cat > s.do <<'DO'
redo-ifchange t
echo stable
echo stable | redo-stamp
DO
timeout ${F13_TIMEOUT:-15} redo-ifchange t >"$SCRATCH/out" 2>&1; rc=$?
echo "f13: exit=$rc"
tail -n 6 "$SCRATCH/out" | sed 's/^/    | /'
if [ $rc -eq 124 ]; then echo "f13: HANG (no cyclic-dependency error within the bound)"; pkill -f "$SCRATCH/bin/redo" 2>/dev/null; exit 1; fi
grep -qi "cyclic" "$SCRATCH/out" || { echo "f13: terminated without naming the cycle"; [ $rc -ne 0 ]; exit $?; }
[ $rc -ne 0 ]
