#!/bin/sh
# F10 (C12, C09): a.do runs `redo-ifchange a` (cycle of length 1).  exit 0 = redo-ifchange ends with status 208
. "$(dirname "$0")/lib.sh"
trap cleanup EXIT
setup_bin || exit 2
P="$SCRATCH/proj"; mkdir -p "$P"; cd "$P"
printf 'redo-ifchange a\necho hi\n' > a.do
redo a >"$SCRATCH/out" 2>&1; rc=$?
if grep -q "panicked" "$SCRATCH/out"; then echo "f10: internal assertion abort"; grep -m2 -E "panicked|assert" "$SCRATCH/out"; exit 1; fi
grep -q "exit 208" "$SCRATCH/out" || { echo "f10: no cyclic-dependency status"; cat "$SCRATCH/out"; exit 1; }
echo "f10: ok (child exited 208, top level exit $rc)"; [ $rc -ne 0 ]
