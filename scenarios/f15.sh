#!/bin/sh
# F15 (C06): an error exit from builder::run while jobs it started are still running released their locks.
# x -> y; y.do runs `redo-ifchange slow x` (x is an ancestor: cyclic).  The redo-ifchange in y.do used to exit at once
# with 208, leaving slow.do running with slow's lock released; a concurrent `redo slow` then ran slow.do a second
# time, overlapping the first.   exit 0 = the two executions of slow.do do not overlap; exit 1 = overlap.
. "$(dirname "$0")/lib.sh"
trap cleanup EXIT
setup_bin || exit 2
P="$SCRATCH/proj"; mkdir -p "$P"; cd "$P"
echo 'redo-ifchange y' > x.do
echo 'redo-ifchange slow x' > y.do
cat > slow.do <<'DO'
echo "start $$ $(date +%s.%N)" >> trace.log
sleep 3
echo "end $$ $(date +%s.%N)" >> trace.log
echo slow
DO
( redo -j2 x >"$SCRATCH/out1" 2>&1; echo "rc1=$?" >>"$SCRATCH/out1" ) &
sleep 1
redo slow >"$SCRATCH/out2" 2>&1; rc2=$?
wait
sed 's/^/    | /' trace.log
grep -q "cyclic" "$SCRATCH/out1" || { echo "f15: the first command did not report the cycle"; cat "$SCRATCH/out1"; exit 2; }
# overlap: a second 'start' before the first 'end'
order=$(awk '{printf "%s ", $1}' trace.log)
echo "f15: order = $order (redo slow exit=$rc2)"
case "$order" in
  "start end start end "|"start end ") exit 0;;
  *) echo "f15: OVERLAP of two executions of slow.do"; exit 1;;
esac
