#!/bin/sh
# F18 (C10): the whole tree is killed after the script of a checksummed target has run redo-stamp but before the build
# result is recorded.  redo-stamp has committed changed_runid/checked_runid = this run for the target; the old file is
# still in place with its recorded stamp; so the recovery run compares every dependency against the killed run's id,
# finds nothing newer and calls the stale target clean.   exit 0 = recovery rebuilds; exit 1 = stale target kept.
. "$(dirname "$0")/lib.sh"
trap cleanup EXIT
setup_bin || exit 2
P="$SCRATCH/proj"; mkdir -p "$P"; cd "$P"
cat >out.do <<'DO'
redo-ifchange in
cat in >"$3"
redo-stamp <"$3"
if [ -e slow ]; then : >started; sleep 600; fi
DO
echo v1 >in
redo-ifchange out >log 2>&1 || { echo "f18: setup build failed"; cat log; exit 2; }
echo v2 >in
: >slow
setsid sh -c 'echo $$ >pgid.tmp; mv pgid.tmp pgid; exec redo-ifchange out' >>log 2>&1 &
bg=$!
i=0; while [ ! -e started ] && [ $i -lt 600 ]; do i=$((i + 1)); sleep 0.1; done
pg=$(cat pgid)
kill -s KILL -- "-$pg"; wait $bg 2>/dev/null
i=0; while kill -s 0 -- "-$pg" 2>/dev/null && [ $i -lt 100 ]; do i=$((i + 1)); sleep 0.1; done
rm -f slow started pgid
redo-ifchange out >>log 2>&1; rc=$?
echo "f18: recovery run exit=$rc; out=$(cat out 2>/dev/null) (in is v2)"
[ "$(cat out 2>/dev/null)" = v2 ] || { echo "f18: STALE target is considered up to date"; exit 1; }
exit 0
