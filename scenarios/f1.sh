#!/bin/sh
# F1 (C01, C03): edit an input of a checksummed dependency, then redo-ifchange its consumer.
# exit 0 = consumer rebuilt; exit 1 = redo-ifchange exited 0 with the consumer stale
. "$(dirname "$0")/lib.sh"
trap cleanup EXIT
setup_bin || exit 2
P="$SCRATCH/proj"; rm -rf "$P"; mkdir -p "$P"; cd "$P"
cat > a.do <<'DO'
redo-ifchange b
echo "a-from:$(cat b)"
DO
cat > b.do <<'DO'
redo-ifchange c
cat c
cat c | redo-stamp
DO
echo v1 > c
redo-ifchange a >/dev/null 2>&1 || { echo "first build failed"; exit 2; }
sleep 1.1
echo v2 > c
redo-ifchange a >"$SCRATCH/out" 2>&1; rc=$?
got=$(cat a)
echo "f1: exit=$rc a='$got' b='$(cat b)'"
if [ $rc -eq 0 ] && [ "$got" != "a-from:v2" ]; then echo "f1: STALE consumer after exit 0"; exit 1; fi
[ $rc -eq 0 ]
