#!/bin/sh
# F21 (C09, C08): a redo that started a job on a borrowed (cheated) token and whose reap of that job finds a debt byte
# in the cheat pipe is left with my_tokens == 0, cheats == 1; do_force_return_tokens asserted cheats <= my_tokens and
# aborted (exit 101).  The debt byte is put into the pipe by the job itself here (python3 writes one byte to the write
# end named by REDO_CHEATFDS), standing in for any redo process that exits on a borrowed token at that moment.
# exit 0 = no abort; exit 1 = 'panicked' in the output.  (The final token count is one short by construction: the
# injected byte is a debt nobody really had.)
. "$(dirname "$0")/lib.sh"
trap cleanup EXIT
setup_bin || exit 2
P="$SCRATCH/proj"; mkdir -p "$P"; cd "$P"
cat > x.do <<'DO'
echo x >> order.log
n=$(grep -c x order.log)
sleep 1.5
if [ "$n" = 2 ]; then
  w=${REDO_CHEATFDS#*,}
  python3 -c "import os,sys; os.write(int(sys.argv[1]), b'x')" "$w"
fi
DO
printf 'redo-ifchange x\nsleep 4\n' > a.do
printf 'sleep 0.5\nredo x\n' > b.do
printf 'sleep 4\n' > c.do
timeout 60 redo -j2 b a c >"$SCRATCH/out" 2>&1; rc=$?
echo "f21: exit=$rc order=$(tr '\n' ' ' < order.log)"
grep -E "panicked|assertion|on exit" "$SCRATCH/out" | head -4 | sed 's/^/    | /'
case "$(tr '\n' ' ' < order.log)" in "x x "*) ;; *) echo "f21: inconclusive (cheat path not reached)"; exit 2;; esac
if grep -q panicked "$SCRATCH/out"; then echo "f21: ABORT on an internal assertion"; exit 1; fi
exit 0
