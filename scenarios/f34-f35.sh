#!/bin/sh
# F34 + F35 (C08): tokens are created (written by the round-9 sub-agent for C08 as its side-findings.sh; kept verbatim below).
# history 1, 2: a panic in the forked job child (NUL byte in a "#!" line) ran Drop for the child's copy of the JobServer (F34, fix d724f74)
# history 3: `unset MAKEFLAGS; redo inner` shared the outer cheat pipe (F35, fix 9ab9dff).  Exit 0: tokens conserved; 1: created.
: "${REDO_BIN:=/repo/target/debug/redo}"; export REDO_BIN
# C08 side findings (UNCHANGED tree).
#
# First finding (histories 1 and 2): redo creates job tokens when the forked
# child that is about to exec a .do script panics.
#
# Between fork() and execvp() the child is a copy of the parent redo, with the
# parent's JobServer (my_tokens = 1, wait_fds = the jobs already running).  A
# panic there (here: a NUL byte in the "#!/..." line of the .do file makes
# CString::new(..).unwrap() fail at src/builder.rs:409) unwinds through
# main(), so the *child* runs `impl Drop for JobServer` ->
# do_force_return_tokens(): it "re-creates" one token per running sibling and
# writes them into the shared token pipe.  The parent later re-creates the
# same tokens again when the siblings really exit.
#
# usage: REDO_BIN=/abs/path/to/redo sh side-findings.sh
# exit:  0 tokens conserved, 1 tokens were created, 2 set-up problem
set -u

case "${REDO_BIN:-}" in
/*) ;;
*) echo "side-findings: REDO_BIN must be an absolute path" >&2; exit 2 ;;
esac
[ -f "$REDO_BIN" ] && [ -x "$REDO_BIN" ] || { echo "side-findings: bad REDO_BIN" >&2; exit 2; }

unset MAKEFLAGS
for v in $(env | sed -n 's/^\(REDO[A-Za-z0-9_]*\)=.*/\1/p'); do
	[ "$v" = REDO_BIN ] || unset "$v"
done
RUST_BACKTRACE=0
export RUST_BACKTRACE

W=$(mktemp -d "${TMPDIR:-/tmp}/c08side.XXXXXX") || exit 2
trap 'rm -rf "$W"' EXIT
trap 'exit 2' INT TERM HUP
mkdir "$W/bin" || exit 2
for n in redo redo-ifchange redo-ifcreate redo-always redo-stamp redo-ood \
	redo-targets redo-sources redo-whichdo redo-log redo-unlocked; do
	ln -s "$REDO_BIN" "$W/bin/$n" || exit 2
done
PATH=$W/bin:$PATH
export PATH

mkproject() {
	mkdir -p "$1" || exit 2
	printf 'sleep 2\necho a\n' >"$1/a.do"
	printf 'sleep 2\necho c\n' >"$1/c.do"
	# "#!/bin/sh <NUL>": an odd but harmless-looking first line
	printf '#!/bin/sh \000\necho b\n' >"$1/b.do"
}

violated=0

# ---- 1: redo owns the jobserver: its own exit check notices the surplus
mkproject "$W/p1"
(cd "$W/p1" && redo -j3 --no-log a c b) >"$W/h1.log" 2>&1
rc=$?
if grep 'on exit: expected' "$W/h1.log"; then
	echo "history 1: redo -j3 ended with more tokens than it started with (exit $rc)"
	violated=1
else
	echo "history 1: no token complaint (exit $rc)"
fi

# ---- 2: the harness is the jobserver (2 spare tokens in a fifo on fd 5)
mkproject "$W/p2"
mkfifo "$W/tokens" || exit 2
exec 5<>"$W/tokens" || exit 2
printf 'tt' >&5
(cd "$W/p2" && MAKEFLAGS=' -j --jobserver-auth=5,5' redo --no-log a c b) >"$W/h2.log" 2>&1
rc=$?
printf 'E' >&5
left=$(dd bs=64 count=1 <&5 2>/dev/null)
exec 5>&-
case "$left" in
*E) ;;
*) echo "side-findings: could not read the token fifo back" >&2; exit 2 ;;
esac
ntok=$(printf '%s' "${left%E}" | wc -c | tr -d ' ')
echo "history 2: inherited jobserver started with 2 tokens, ended with $ntok (redo exit $rc)"
[ "$ntok" -eq 2 ] || violated=1

# ---- 3: second finding: one cheat pipe shared by two token pools.
# A redo that starts its own jobserver because MAKEFLAGS was unset (or because
# a `make -jN` sits between it and the outer redo) keeps using the outer
# REDO_CHEATFDS.  When it reaps a job it swallows a debt byte that a process of
# the OUTER pool left there (B's redo-ifchange, which had to borrow a token
# while redo-log was following B), so the outer reaper of B re-creates a token
# that was never destroyed: the outer jobserver ends with one token too many
# (and the inner one with one too few).
mkdir -p "$W/p3" || exit 2
cd "$W/p3" || exit 2
printf 'redo-ifchange B A D\n' >all.do
printf 'sleep 0.5\nredo-ifchange C\nsleep 3\n' >B.do
printf 'redo-ifchange C\nsleep 3\n' >A.do
printf 'sleep 2\n' >C.do
printf 'sleep 3.5\n( unset MAKEFLAGS; redo e ) || echo "inner redo failed: $?" >&2\nsleep 2\n' >D.do
printf 'echo e\n' >e.do
redo -j2 all >"$W/h3.log" 2>&1
rc=$?
cd "$W" || exit 2
if grep 'on exit: expected' "$W/h3.log"; then
	echo "history 3: token self-checks failed (exit $rc)"
	violated=1
else
	echo "history 3: no token complaint (exit $rc)"
fi

if [ $violated -ne 0 ]; then
	echo "VIOLATED: job tokens were created"
	exit 1
fi
echo "OK: tokens conserved"
exit 0
