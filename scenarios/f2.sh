#!/bin/sh
# F2 (C09): 40-target graph at -j8: a token arriving in the same wake-up as a child exit.
# exit 0 = no abort in N runs; exit 1 = abort (panic / non-zero status) observed
. "$(dirname "$0")/lib.sh"
trap cleanup EXIT
setup_bin || exit 2
N=${1:-6}
P="$SCRATCH/proj"; 
fail=0
for run in $(seq 1 $N); do
  rm -rf "$P"; mkdir -p "$P"; cd "$P"
  cat > default.do <<'DO'
case "$1" in
  all) deps=""; for i in $(seq 1 40); do deps="$deps n$i"; done; redo-ifchange $deps ;;
  n*) i=${1#n}; if [ "$i" -gt 8 ]; then redo-ifchange n$((i-8)) n$((i-7)); fi; echo "$1" ;;
esac
DO
  redo -j8 all >"$SCRATCH/out.$run" 2>&1; rc=$?
  if [ $rc -ne 0 ]; then fail=$((fail+1)); echo "run $run: exit $rc: $(grep -m1 -E 'panicked|assert|expected' "$SCRATCH/out.$run")"; fi
done
echo "f2: $fail/$N runs failed"
[ $fail -eq 0 ]
