#!/bin/sh
# F9 (C16): read-only queries started while a build is running must not fail with 'database is locked'.
# exit 0 = no invocation failed; exit 1 = at least one spurious failure
. "$(dirname "$0")/lib.sh"
trap cleanup EXIT
setup_bin || exit 2
ROUNDS=${1:-10}; PAR=${2:-12}
P="$SCRATCH/proj"; mkdir -p "$P"; cd "$P"
cat > default.do <<'DO'
case "$1" in
  all) deps=""; for i in $(seq 1 12); do deps="$deps t$i"; done; redo-ifchange $deps ;;
  t*) sleep 0.2; echo "$1" ;;
esac
DO
redo all >/dev/null 2>&1 || { echo "f9: warm-up build failed"; exit 2; }
fail=0; total=0
for r in $(seq 1 $ROUNDS); do
  rm -f t*; redo -j4 all >"$SCRATCH/b.$r" 2>&1 &
  B=$!
  for k in $(seq 1 $PAR); do ( redo-targets >/dev/null 2>"$SCRATCH/q.$r.$k"; echo $? > "$SCRATCH/rc.$r.$k" ) & done
  wait
  for k in $(seq 1 $PAR); do total=$((total+1)); if [ "$(cat "$SCRATCH/rc.$r.$k")" != "0" ]; then fail=$((fail+1)); head -2 "$SCRATCH/q.$r.$k"; fi; done
  grep -q "database is locked" "$SCRATCH/b.$r" && { fail=$((fail+1)); grep -m1 "database is locked" "$SCRATCH/b.$r"; }
done
echo "f9: $fail failures in $total query invocations + $ROUNDS builds"
[ $fail -eq 0 ]
