#!/bin/sh
# F6 (C08): wide parallel builds with log capture (token cheating enabled); the top-level self test must not report
# 'expected N tokens; found M'.  exit 0 = no run failed; exit 1 = a token accounting error was reported
. "$(dirname "$0")/lib.sh"
trap cleanup EXIT
setup_bin || exit 2
N=${1:-15}
P="$SCRATCH/proj"
fail=0
for run in $(seq 1 $N); do
  rm -rf "$P"; mkdir -p "$P"; cd "$P"
  cat > default.do <<'DO'
case "$1" in
  all) deps=""; for i in $(seq 1 40); do deps="$deps n$i"; done; redo-ifchange $deps ;;
  n*) i=${1#n}; if [ "$i" -gt 8 ]; then redo-ifchange n$((i-8)) n$((i-7)); fi; echo "$1" ;;
esac
DO
  redo -j8 all >"$SCRATCH/out.$run" 2>&1 </dev/null; rc=$?
  if [ $rc -ne 0 ]; then fail=$((fail+1)); echo "run $run: exit $rc: $(grep -m1 -E 'expected|panicked|assert' "$SCRATCH/out.$run" | cut -c1-150)"; fi
done
echo "f6: $fail/$N runs failed"
[ $fail -eq 0 ]
